"""C07 - filters select exactly the matching postings and never alter them.
Correspondence (K):
  (a) `ledger query ARGS` (multiple_args) and `ledger --collapse query ARGS` (single-argument lexing)
      print the parsed limit predicate; compared with print_expr (Query.parse argv) of the extracted model on
      generated query trees in every spelling plus a stream of near-random argument vectors;
  (c) sequences of 1-7 limit contributions with repetitions (--limit, -b, -e, -C, -U, --pending, -R, -L, -c,
      -p from/to, a query), the same sequence shuffled, de-duplicated, and every contribution alone, compared
      with Filter.report_with (which models terminus/today); oracle: the sequence selects the intersection of
      what its contributions select alone, in any order and multiplicity;
  (b) `reg --format` rows (posting line|account|payee|exact amount|date|state) under no limit, --limit P,
      --limit '!(P)', Q, P&Q, P|Q, two --limit options, a command-line query, the query's equivalent
      expression, --begin / --end / both, compared with Filter.report_posts on the same abstract journal.
  (f) tag terms with a value (`%word=value`, `tag|meta|data word=value`, has_tag(/word/, /value/) under --limit) on
      journals whose items carry several valued tags with overlapping names, compared with the model and judged
      against the tags the register displays (F207, repaired: the first name-matching tag used to decide).
Oracle (O): the set identities of the property text between the paired ledger runs (python sets over the
  printed rows; no predicate is evaluated in python)."""
import datetime, os, re
from concurrent.futures import ThreadPoolExecutor
from fractions import Fraction as F
import lib

META = dict(
    id='C07',
    level='proof',
    technique='Coq proof (set algebra of the posting filter over a model of predicate evaluation; query lexer/parser model with a parse theorem for rendered query trees) + differential correspondence of the extracted model against ledger',
    level_text='Theorems in coq/Properties/Properties_C07.v state, for all posting lists and all predicates whose evaluation does not error: --limit P and --limit !P select disjoint order-preserving sub-sequences of the unfiltered list that merge back to it, with every posting passed through unchanged; & and | (with the non-boolean results of op.cc O_AND/O_OR/O_NOT) select intersection and union; several limits compose, and sequences of limit contributions (--limit, -b, -e, -C, -U, --pending, -R, -L, -c, -p bounds, the query - all through the limit_ handler whose combine expression the translator re-reads from report.h/option.h on every run) select the intersection of what each selects alone, independent of order and repetition (the one exception, -c under -e, is finding F95 and stated as current_with_end_refuted); has_tag(word, value) selects exactly the postings that have (or whose transaction has) a tag containing word whose value contains value (has_tag_value_sound, has_tag_value_complete; F207, repaired); --begin D / --end D keep exactly date >= D / date < D and are complementary; and the model of the command-line query parser (query.cc lexer and precedence ladder, transcribed) maps a rendered query tree (account/payee/code/note terms, not/and/or in both spellings, juxtaposition, minimal parentheses; one token per argument) to the intended expression in both lexing modes, so such a query selects what its expression selects (query_parse_spec_partial: tag selectors, expr, quoted patterns and several tokens per argument are covered by the correspondence only). The model is tied to the code by comparing the parsed predicate text of thousands of generated argument vectors (`query` pre-command, both lexing modes) the register rows of generated journals under fifteen paired limit settings, and option sequences with repetitions in two orders against each contribution alone, with the extracted model.',
    level_note='Trusted: Coq kernel; extraction + OCaml driver and the python harness for the correspondence. Regular expressions are literal patterns (case-insensitive ASCII substring search stands for boost::regex icase search); the value-expression parser that reads --limit text and `expr ARG` is C15\'s subject and is a parameter of the query model; journal text -> in-memory posting (notes, tags, state inheritance) is computed by the harness renderer and validated through the same correspondence. show/only/bold/for/since/until query sections are outside the modelled fragment.',
    design_ref='DESIGN.md section 7 C07',
    assumptions=['patterns are literal: letters, digits, space, colon (no regex metacharacters); ASCII only',
                 'posting amounts carry no more decimals than their commodity displays, so amount truth is the exact non-zero test',
                 'tag names within one item are distinct ignoring case; no Payee: tags, no --aux-date',
                 '-p is given at most once per bound (from / to); the period parser itself is C13\'s subject and the model receives the resolved bounds',
                 'query arguments are non-empty and contain no NUL byte'],
)

NOW = '2021/06/15'
FMT = '%(beg_line)|%(account)|%(payee)|%(verif_rational(amount))|%(format_date(date, "%Y-%m-%d"))|%(cleared ? "c" : (pending ? "p" : "u"))\\n'

ACCOUNTS = ['Assets:Cash', 'Assets:Bank:Checking', 'Expenses:Food', 'Expenses:Rent', 'Income:Salary',
            'Liabilities:Card', 'Equity:Opening', 'assets:Misc', 'Expenses:Food:Lunch']
PAYEES = ['Grocer', 'Landlord Ltd', 'ACME corp', 'acme Shop', 'Book Store', 'Cafe 9']
CODES = [None, None, None, '101', 'A7', 'chk12', '7']
WORDS = ['lunch', 'monthly rent', 'gift card', 'Refund', 'cash back', 'x', 'Lunch Special']
TAGS = ['food', 'trip', 'Project', 'Proj2', 'client', 'Foodie', 'rip']
TVALS = ['alpha', 'beta one', 'Gamma', 'alphabet', 'be']
COMMS = [('$', True, 2), ('EUR', False, 2), ('AAA', False, 0)]
KEYWORDS = {'and', 'or', 'not', 'code', 'desc', 'payee', 'note', 'tag', 'meta', 'data', 'show', 'only', 'bold',
            'for', 'since', 'until', 'expr'}
D0 = datetime.date(2020, 1, 1)


def hb(s):
    return s.encode() if isinstance(s, str) else s


def ob(s):
    return '~' if s is None else hb(s)


# ---------------------------------------------------------------- journals
def amt_text(q, comm):
    sym, pre, dec = comm
    neg = q < 0
    a = abs(q)
    s = str(int(a * 10 ** dec)).rjust(dec + 1, '0')
    if dec:
        s = s[:-dec] + '.' + s[-dec:]
    if neg:
        s = '-' + s
    return (sym + s) if pre else (s + ' ' + sym)


def gen_comments(rng, maxn, allow_date=None):
    """comment lines of one item -> (list of texts after ';', tags dict key->value/None, date or None)"""
    lines, tags, date = [], {}, None
    used = set()
    for _ in range(rng.choice([0, 0, 1, 1, 2, 3][:maxn + 3])):
        kind = rng.choice(['free', 'tags', 'kv', 'freetags', 'date'])
        sp = ' ' if rng.random() < 0.8 else ''
        if kind == 'date' and allow_date and date is None:
            date = allow_date
            lines.append(sp + '[%s]' % date.strftime('%Y/%m/%d'))
        elif kind == 'free' or kind == 'date':
            lines.append(sp + rng.choice(WORDS))
        elif kind in ('tags', 'freetags'):
            ts = [t for t in rng.sample(TAGS, rng.choice([1, 1, 2])) if t.lower() not in used]
            if not ts:
                continue
            for t in ts:
                used.add(t.lower())
                tags[t] = None
            lines.append(sp + (rng.choice(WORDS) + ' ' if kind == 'freetags' else '') + ':' + ':'.join(ts) + ':')
        else:
            t = rng.choice(TAGS)
            if t.lower() in used:
                continue
            used.add(t.lower())
            v = rng.choice(TVALS)
            tags[t] = v
            lines.append(sp + '%s: %s' % (t, v))
    return lines, tags, date


def gen_journal(rng, nx, header=()):
    """-> (text, postings) ; a posting is a dict with what the model's record needs"""
    out, posts = [], []
    line = 0

    def emit(s):
        nonlocal line
        out.append(s)
        line += 1
        return line

    for h in header:
        emit(h)

    for _ in range(nx):
        xdate = D0 + datetime.timedelta(days=rng.randrange(0, 70))
        xstate = rng.choice(['', '', '*', '!'])
        code = rng.choice(CODES)
        payee = rng.choice(PAYEES)
        xlines, xtags, _ = gen_comments(rng, 2)
        head = xdate.strftime('%Y/%m/%d') + (' ' + xstate if xstate else '') + (' (%s)' % code if code else '') + ' ' + payee
        rest = list(xlines)
        if rest and rng.random() < 0.5:
            head += '  ;' + rest.pop(0)
        emit(head)
        for l in rest:
            emit('    ;' + l)
        xnote = '\n'.join(xlines) if xlines else None
        # postings: real ones balanced per commodity, optional virtual ones
        plist = []
        sums = {}
        for _ in range(rng.choice([1, 1, 2, 3])):
            comm = rng.choice(COMMS[:2]) if rng.random() < 0.8 else COMMS[2]
            r = rng.random()
            if r < 0.12:
                q = F(0)
            else:
                q = F(rng.randrange(-3000, 6000), 10 ** comm[2]) if rng.random() < 0.7 else F(rng.choice([1, 5, 10, 100, -10]))
            plist.append(['real', rng.choice(ACCOUNTS), q, comm])
            sums[comm] = sums.get(comm, 0) + q
        for comm, s in sums.items():
            if s != 0:
                plist.append(['real', rng.choice(['Equity:Opening', 'Assets:Cash', 'Income:Salary']), -s, comm])
        if rng.random() < 0.3:
            comm = rng.choice(COMMS)
            plist.append(['virt', rng.choice(ACCOUNTS), F(rng.randrange(-500, 900), 10 ** comm[2]), comm])
        if rng.random() < 0.2:
            comm = rng.choice(COMMS)
            q = F(rng.randrange(1, 900), 10 ** comm[2])
            plist.append(['bvirt', rng.choice(ACCOUNTS), q, comm])
            plist.append(['bvirt', rng.choice(ACCOUNTS), -q, comm])
        if rng.random() < 0.3:
            rng.shuffle(plist)
        for kind, acct, q, comm in plist:
            pstate = rng.choice(['', '', '', '*', '!'])
            pd = D0 + datetime.timedelta(days=rng.randrange(0, 75))
            plines, ptags, pdate = gen_comments(rng, 2, allow_date=pd)
            name = {'real': acct, 'virt': '(%s)' % acct, 'bvirt': '[%s]' % acct}[kind]
            s = '    ' + (pstate + ' ' if pstate else '') + name + '    ' + amt_text(q, comm)
            rest = list(plines)
            if rest and rng.random() < 0.5:
                s += '  ;' + rest.pop(0)
            ln = emit(s)
            for l in rest:
                emit('    ;' + l)
            st = pstate or xstate
            posts.append(dict(id=ln, account=acct, payee=payee, code=code,
                              note='\n'.join(plines) if plines else None, xnote=xnote,
                              tags=sorted(ptags.items(), key=lambda kv: kv[0].lower()),
                              xtags=sorted(xtags.items(), key=lambda kv: kv[0].lower()),
                              q=q, comm=comm[0], date=pdate, xdate=xdate,
                              state={'*': 'c', '!': 'p', '': 'u'}[st], virtual=kind != 'real'))
        emit('')
    return '\n'.join(out) + '\n', posts


def post_sx(p):
    return ['post', p['id'], hb(p['account']), hb(p['payee']), ob(p['code']), ob(p['note']), ob(p['xnote']),
            ['tags'] + [[hb(k), ob(v)] for k, v in p['tags']],
            ['xtags'] + [[hb(k), ob(v)] for k, v in p['xtags']],
            ['amt', p['q'].numerator, p['q'].denominator, hb(p['comm'])],
            '~' if p['date'] is None else p['date'].toordinal(), p['xdate'].toordinal(), p['state'], p['virtual']]


# ---------------------------------------------------------------- predicates (value expressions)
def flipcase(rng, s):
    return ''.join(c.swapcase() if rng.random() < 0.3 else c for c in s)


def sub_pattern(rng, s):
    s = s.replace('\n', ' ').strip()
    s = re.sub(r'[^A-Za-z0-9: ]', '', s)
    if not s:
        return 'zz'
    n = rng.choice([1, 2, 3, 3, 4, 6])
    i = rng.randrange(0, max(1, len(s) - n + 1))
    t = s[i:i + n].strip()
    return flipcase(rng, t) if t else 'zz'


def gen_pattern(rng, posts, field):
    if posts and rng.random() < 0.8:
        p = rng.choice(posts)
        src = {'account': p['account'], 'payee': p['payee'], 'code': p['code'] or rng.choice(['101', 'A7']),
               'note': (p['note'] or '') + (p['xnote'] or '') or rng.choice(WORDS)}[field]
        return sub_pattern(rng, src)
    return rng.choice(['zz', 'qq', 'Food', 'a', 'e', 'co', '1'])


def const_amt(rng, forq):
    r = rng.random()
    if r < 0.5 or forq and r < 0.7:
        q = F(rng.choice([0, 1, 2, 5, 10, 100, 25, 1000]))
        return ('const', 'amt', q, '', str(q))
    if r < 0.65:
        q = F(rng.randrange(0, 4000), 100)
        txt = '%d.%02d' % (q.numerator * 100 // q.denominator // 100, q.numerator * 100 // q.denominator % 100)
        if txt.endswith('0'):
            txt = txt[:-1] + '5'
            q = F(int(txt.replace('.', '')), 100)
        return ('const', 'amt', q, '', txt)
    comm = rng.choice(COMMS[:2])
    q = F(rng.randrange(0, 3000), 100)
    return ('const', 'amt', q, comm[0], amt_text(q, comm))


def gen_leaf(rng, posts, forq=False):
    r = rng.random()
    if r < 0.30:
        f = rng.choice(['account', 'account', 'payee', 'code', 'note'])
        return ('match', f, gen_pattern(rng, posts, f))
    if r < 0.42:
        tp = flipcase(rng, rng.choice(TAGS + ['oo', 'ro', 'p']))
        if rng.random() < 0.5 and not forq:
            return ('tag', tp, flipcase(rng, rng.choice(TVALS + ['a', 'e', 'zz'])))
        return ('tag', tp, None)
    if r < 0.62:
        op = rng.choice(['==', '<', '<=', '>', '>=', '!='])
        a, b = ('id', 'amount'), const_amt(rng, forq)
        if rng.random() < 0.2:
            a, b = b, a
        return ('cmp', op, a, b)
    if r < 0.76:
        op = rng.choice(['==', '<', '<=', '>', '>=', '!='])
        if posts and rng.random() < 0.7:
            p = rng.choice(posts)
            d = (p['date'] or p['xdate']) + datetime.timedelta(days=rng.choice([-1, 0, 0, 1]))
        else:
            d = D0 + datetime.timedelta(days=rng.randrange(-5, 90))
        a, b = ('id', 'date'), ('const', 'date', d)
        if rng.random() < 0.2:
            a, b = b, a
        return ('cmp', op, a, b)
    if r < 0.88:
        return ('id', rng.choice(['cleared', 'pending', 'virtual', 'real']))
    if r < 0.93:
        return ('id', rng.choice(['amount', 'note', 'code', 'payee', 'date', 'account']))   # non-boolean results
    if r < 0.96:
        return rng.choice([('const', 'bool', True), ('const', 'bool', False),
                           ('const', 'amt', F(1), '', '1'), ('const', 'amt', F(0), '', '0')])
    if r < 0.985:
        op = rng.choice(['==', '<', '>='])
        f = rng.choice(['payee', 'code', 'account'])
        return ('cmp', op, ('id', f), ('const', 'str', rng.choice(PAYEES + ['101', 'M', 'Assets:Cash'])))
    # a type error (value_t comparison throws): the report must fail, never select silently
    return ('cmp', rng.choice(['<', '>', '==']), ('id', 'amount'), ('id', rng.choice(['date', 'payee'])))


def gen_pred(rng, posts, depth, forq=False):
    if depth <= 0 or rng.random() < 0.25:
        return gen_leaf(rng, posts, forq)
    r = rng.random()
    if r < 0.25:
        x = gen_pred(rng, posts, depth - 1, forq)
        # the expression parser folds `! constant` while parsing, so its printed form is not the tree's
        return x if (forq and x[0] == 'const') else ('not', x)
    if r < 0.62:
        return ('and', gen_pred(rng, posts, depth - 1, forq), gen_pred(rng, posts, depth - 1, forq))
    return ('or', gen_pred(rng, posts, depth - 1, forq), gen_pred(rng, posts, depth - 1, forq))


def const_src(c):
    if c[1] == 'amt':
        return c[4]
    if c[1] == 'date':
        return '[%s]' % c[2].strftime('%Y/%m/%d')
    if c[1] == 'str':
        return '"%s"' % c[2]
    return 'true' if c[2] else 'false'


def const_printed(c):
    return '{%s}' % c[4] if c[1] == 'amt' else const_src(c)


def render_expr(e, rng=None):
    """fully parenthesised value-expression text"""
    pick = (lambda l: rng.choice(l)) if rng else (lambda l: l[0])
    k = e[0]
    if k == 'id':
        return e[1]
    if k == 'const':
        return const_src(e)
    if k == 'match':
        return '(%s =~ /%s/)' % (e[1], e[2])
    if k == 'tag':
        return 'has_tag(/%s/)' % e[1] if e[2] is None else 'has_tag(/%s/, /%s/)' % (e[1], e[2])
    if k == 'cmp':
        return '(%s %s %s)' % (render_expr(e[2], rng), e[1], render_expr(e[3], rng))
    if k == 'not':
        return '(%s %s)' % (pick(['!', 'not']), render_expr(e[1], rng))
    op = pick(['&', 'and']) if k == 'and' else pick(['|', 'or'])
    return '(%s %s %s)' % (render_expr(e[1], rng), op, render_expr(e[2], rng))


def expr_sx(e):
    k = e[0]
    if k == 'id':
        return ['id', e[1]]
    if k == 'const':
        if e[1] == 'amt':
            v = ['amt', e[2].numerator, e[2].denominator, hb(e[3])]
        elif e[1] == 'date':
            v = ['date', e[2].toordinal()]
        elif e[1] == 'str':
            v = ['str', hb(e[2])]
        else:
            v = ['bool', e[2]]
        return ['const', hb(const_printed(e)), v]
    if k == 'match':
        return ['match', ['id', e[1]], hb(e[2])]
    if k == 'tag':
        return ['tag', hb(e[1]), ob(e[2])]
    if k == 'cmp':
        if e[1] == '!=':
            return ['not', ['cmp', '==', expr_sx(e[2]), expr_sx(e[3])]]
        return ['cmp', e[1], expr_sx(e[2]), expr_sx(e[3])]
    if k == 'not':
        return ['not', expr_sx(e[1])]
    return [k, expr_sx(e[1]), expr_sx(e[2])]


def esize(e):
    return 1 + sum(esize(x) for x in e[1:] if isinstance(x, tuple))


# ---------------------------------------------------------------- command-line queries
SELECT = {'payee': [('w', 'payee'), ('w', 'desc'), ('s', '@')], 'code': [('w', 'code'), ('s', '#')],
          'note': [('w', 'note'), ('n', '=')], 'tag': [('w', 'tag'), ('w', 'meta'), ('w', 'data'), ('s', '%')]}


def pat_tok(p):
    return ('q', p) if (' ' in p or p in KEYWORDS) else ('w', p)


def gen_query(rng, posts, depth, ctx='account', allow_expr=True):
    """-> (tokens, intended expression, level)  level: 0 = or/juxtaposition, 1 = and, 2 = unary"""
    def paren(t):
        return [('s', '(')] + t + [('s', ')')]

    if depth <= 0 or rng.random() < 0.28:
        r = rng.random()
        if allow_expr and r < 0.1:
            e = gen_pred(rng, posts, rng.choice([0, 1, 1, 2]), forq=True)
            return [('w', 'expr'), ('x', render_expr(e, rng), e)], e, 2
        if ctx == 'account':
            f = rng.choice(['account'] * 5 + ['payee', 'payee', 'code', 'note', 'tag', 'tag'])
        else:
            f = ctx if rng.random() < 0.65 else rng.choice(['payee', 'code', 'note', 'tag'])
        sel = [] if f == ctx else [rng.choice(SELECT[f])]
        if f == 'tag':
            tp = flipcase(rng, rng.choice(TAGS + ['oo', 'ro']))
            if rng.random() < 0.4:
                vp = flipcase(rng, rng.choice(TVALS + ['a', 'zz']))
                return sel + [('tv', pat_tok(tp), pat_tok(vp))], ('tag', tp, vp), 2
            return sel + [pat_tok(tp)], ('tag', tp, None), 2
        p = gen_pattern(rng, posts, f)
        return sel + [pat_tok(p)], ('match', f, p), 2
    r = rng.random()
    if r < 0.2:
        t, e, lv = gen_query(rng, posts, depth - 1, ctx, allow_expr)
        if lv < 2 or e[0] == 'not' or rng.random() < 0.15:
            t = paren(t)
        return [rng.choice([('w', 'not'), ('s', '!')])] + t, ('not', e), 2
    if r < 0.32:
        if ctx == 'account':
            f = rng.choice(['payee', 'code', 'note', 'tag'])
            t, e, lv = gen_query(rng, posts, depth - 1, f, allow_expr)
            return [rng.choice(SELECT[f])] + paren(t), e, 2
        t, e, lv = gen_query(rng, posts, depth - 1, ctx, allow_expr)
        return paren(t), e, 2
    ta, ea, la = gen_query(rng, posts, depth - 1, ctx, allow_expr)
    tb, eb, lb = gen_query(rng, posts, depth - 1, ctx, allow_expr)
    if r < 0.62:
        if la < 1:
            ta = paren(ta)
        if lb < 1:
            tb = paren(tb)
        return ta + [rng.choice([('w', 'and'), ('s', '&')])] + tb, ('and', ea, eb), 1
    mid = rng.choice([[('w', 'or')], [('s', '|')], []])
    if rng.random() < 0.1:
        ta = paren(ta)
    return ta + mid + tb, ('or', ea, eb), 0


def quote(rng, text):
    return rng.choice(["'%s'", '"%s"', '/%s/']) % text


def assemble(rng, toks, multi):
    """tokens -> (argv, ext table).  Tokens share an argument only where the lexer separates them again:
    at symbols, after a closing quote, and (single-argument mode) at white space."""
    argv, ext = [], []
    cur, last = '', None          # last = kind of the last piece in cur: 'w' bare word, 's' symbol, 'q' quoted

    def flush():
        nonlocal cur, last
        if cur:
            argv.append(cur)
        cur, last = '', None

    def piece(text, sk, ek):
        """append a piece that starts as kind sk and ends as kind ek"""
        nonlocal cur, last
        if cur and rng.random() < 0.45:
            if last == 'w' and sk in ('w', 'q'):
                if multi:
                    flush()
                else:
                    cur += ' ' * rng.choice([1, 1, 2])
            elif last == 'w':
                if not multi and rng.random() < 0.3:
                    cur += ' '
            elif rng.random() < 0.25:
                cur += ' ' * rng.choice([1, 2])
        else:
            flush()
        if not cur and rng.random() < 0.08:
            cur = ' '
        cur += text
        last = ek

    def pattern(t, must_attach=False):
        """a pattern token -> (text, start kind, end kind) or None when emitted as a whole argument"""
        if t[0] == 'w':
            return t[1], 'w', 'w'
        if multi and not must_attach and t[1] not in KEYWORDS and rng.random() < 0.4:
            return None
        return quote(rng, t[1]), 'q', 'q'

    for t in toks:
        k = t[0]
        if k == 'x':
            flush()
            ext.append((t[1], t[2]))
            argv.append(t[1])
        elif k == 'n':                       # note selector: only at the first byte of an argument
            flush()
            cur, last = '=', 's'
        elif k == 's':
            piece(t[1], 's', 's')
        elif k == 'tv':                      # %key=value : '=' attached to the key, the value may start an argument
            key = pattern(t[1], must_attach=True)
            piece(key[0] + '=', key[1], 's')
            v = t[2]
            if v[0] == 'q' and multi and rng.random() < 0.5:
                cur += v[1]                  # multiple_args: white space stays inside the identifier
                flush()
            else:
                val = pattern(v, must_attach=True)
                if rng.random() < 0.4:
                    flush()
                cur += val[0]
                last = val[2]
        elif k in ('w', 'q'):
            pt = pattern(t)
            if pt is None:
                flush()
                argv.append(t[1])
            else:
                piece(pt[0], pt[1], pt[2])
                if k == 'w' and t[1] == 'expr':
                    flush()
    flush()
    return argv, ext


def gen_query_case(rng, posts, depth, multi):
    for _ in range(50):
        toks, e, _ = gen_query(rng, posts, depth, 'account', allow_expr=multi)
        try:
            argv, ext = assemble(rng, toks, multi)
        except ValueError:
            continue
        if argv and not argv[0].startswith('-'):
            return argv, ext, e
    return ['zz'], [], ('match', 'account', 'zz')


EDGE = ['a', 'b', 'Ab', 'and', 'or', 'not', 'payee', 'tag', 'code', 'note', 'desc', 'meta',
        '(', ')', '&', '|', '!', '@', '#', '%', '=', ' ', ' ', "'", '"', '/', '\\', 'x y', '=', '(', ')']


def gen_edge(rng):
    argv = []
    for _ in range(rng.choice([1, 1, 2, 3, 4, 5])):
        a = ''.join(rng.choice(EDGE) for _ in range(rng.choice([1, 1, 2, 3, 4, 6])))
        if a and not a.startswith('-'):
            argv.append(a)
    return argv or ['a']


# ---------------------------------------------------------------- running ledger
def pmap(fn, items, workers=8):
    with ThreadPoolExecutor(max_workers=workers) as ex:
        return list(ex.map(fn, items))


def run_query(argv, multi):
    args = ([] if multi else ['--collapse']) + ['query'] + list(argv)
    st, out, err = lib.run_ledger(args)
    out = out.decode('utf-8', 'replace').split('\n')
    inp = None
    for i, l in enumerate(out):
        if l.startswith('--- Input expression'):
            inp = out[i + 1] if i + 1 < len(out) else ''
            break
    errs = [l for l in err.decode('utf-8', 'replace').split('\n') if l.startswith('Error')]
    if st not in (0, 1):
        return 'CRASH(%s)' % st
    if inp is not None:
        return 'OK ' + inp
    if errs:
        if 'regular expression' in errs[0]:
            return 'SKIP'
        return 'ERR'
    return 'NONE'


def run_reg(journal, limits):
    args = ['-f', journal, '--now', NOW, 'reg', '--empty', '--format', FMT]
    tail = []
    for l in limits:
        if l[0] == 'e':
            args += ['--limit', l[1]]
        elif l[0] == 'begin':
            args += ['--begin', l[1]]
        elif l[0] == 'end':
            args += ['--end', l[1]]
        else:
            tail += list(l[1])
    st, out, err = lib.run_ledger(args + tail)
    if st not in (0, 1):
        return 'CRASH(%s)' % st, []
    if st != 0 or b'Error' in err:
        return 'ERR', []
    rows = [r for r in out.decode('utf-8', 'replace').split('\n') if r]
    return 'OK', rows


def canon_row(r):
    """impl row -> the model's row form id|accounthex|num/den|commhex (+ the rest kept for the oracle)"""
    f = r.split('|')
    m = re.fullmatch(r'A:([0-9a-f]*):(-?\d+)/(\d+):\d+:[01]', f[3])
    if not m:
        return 'UNREADABLE:' + r
    return '%s|%s|%s/%s|%s' % (f[0], f[1].encode().hex() or '-', m.group(2), m.group(3), m.group(1) or '-')


def limit_sx(l, multi=True):
    if l[0] == 'e':
        return ['e', expr_sx(l[2])]
    if l[0] == 'begin':
        return ['begin', hb('[%s]' % l[2].strftime('%Y/%m/%d')), l[2].toordinal()]
    if l[0] == 'end':
        return ['end', hb('[%s]' % l[2].strftime('%Y/%m/%d')), l[2].toordinal()]
    return ['qry', 1, [hb(a) for a in l[1]], ['ext'] + [[hb(t), expr_sx(e)] for t, e in l[2]]]


# ---------------------------------------------------------------- the run
def run(ctx, scale=1):
    rng = ctx.rng
    res = lib.Result()
    res.rule = ('(a) query argument vectors: rendered random query trees (depth<=4, both spellings of every operator and '
                'field selector, juxtaposition, parentheses, field groups, quoted patterns, expr) in multiple_args and '
                'single-argument lexing, plus near-random vectors over the lexer alphabet; non-trivial = the parse '
                'yields a predicate with at least one operator or a non-account field; (b) journals of 3-9 transactions '
                '(virtual/balanced-virtual postings, states, codes, notes, tags, posting dates, zero amounts, 3 '
                'commodities) x 12 limit settings; non-trivial = the run selects a non-empty proper subset or errors; '
                'distinct by argv / by journal+limit text')
    res.rule += ('; (e) every comparison operator (== != < <= > >=) on date and amount with the constant ON a posting\'s '
                 'date / amount, through the query term `expr CMP` (printed and re-read by ledger), its negation, an and/or '
                 'nesting, and through --limit, judged against the date and exact amount the register displays; '
                 'non-trivial = every run')
    res.rule += ('; (d) the posting-flag identifiers virtual real cleared pending uncleared actual through --limit ID, '
                 '--limit not ID, the query `expr ID` and and/or/not combinations, judged against how the register '
                 'displays each posting ((A)/[A]/bare account, the state marks written in the journal, accounts only an '
                 'automated transaction generates); non-trivial = every run of a journal')
    res.rule += ('; (c) sequences of 1-6 limit contributions with repetitions and in two orders (--limit, -b, -e, -C, -U, '
                 '--pending, -R, -L, -c under a --now inside the journal, -p from/to, a query) against each contribution '
                 'alone; non-trivial = the sequence repeats a contribution or selects a non-empty proper subset')
    res.rule += ('; (f) journals whose postings and transactions carry up to 3 valued tags with overlapping names '
                 '(food/Foodie, trip/rip, Project/Proj2) x tag terms `%word=value`, `tag|meta|data word=value`, `%word` and '
                 'the same has_tag(...) under --limit, judged against the tags the register displays for each posting '
                 '(%(tag("name")) per name) by the manual\'s meaning "any metadata tag containing word whose value contains '
                 'value"; non-trivial = some posting has several tags whose name contains the word, or a non-empty proper subset')
    part_a(ctx, rng, res, scale)
    part_b(ctx, rng, res, scale)
    part_c(ctx, rng, res, scale)
    part_d(ctx, rng, res, scale)
    part_e(ctx, rng, res, scale)
    part_f(ctx, rng, res, scale)
    return res


def part_a(ctx, rng, res, scale):
    n_tree = ctx.scale(1200, 8000) * scale
    n_edge = ctx.scale(1200, 8000) * scale
    cases = []
    for i in range(n_tree):
        multi = rng.random() < 0.7
        argv, ext, e = gen_query_case(rng, None, rng.choice([1, 2, 2, 3, 3, 4, 4]), multi)
        cases.append(('tree', argv, multi, ext, e))
    for i in range(n_edge):
        cases.append(('edge', gen_edge(rng), rng.random() < 0.6, [], None))
    impl = pmap(lambda c: run_query(c[1], c[2]), cases)
    lines = [lib.sx(['q', 'q%d' % i, c[2], [hb(a) for a in c[1]], ['ext'] + [[hb(t), expr_sx(e)] for t, e in c[3]]])
             for i, c in enumerate(cases)]
    model = lib.run_model('C07', lines)
    for i, (c, ri, rm) in enumerate(zip(cases, impl, model)):
        rm = rm.split(' ', 1)[1]
        if rm.startswith('OK '):
            rm = 'OK ' + bytes.fromhex(rm[3:].replace('-', '')).decode('utf-8', 'replace')
        res.evaluations += 1
        res.count('a:%s:%s' % (c[0], 'multi' if c[2] else 'single'))
        if ri == 'SKIP':
            res.count('a:skipped-invalid-regex')
            continue
        res.traces += 1
        res.count('a:result:' + ri.split(' ')[0])
        if ri.startswith('CRASH'):
            res.violations.append(dict(key='query:crash', desc='ledger query %r died: %s' % (c[1], ri),
                                       case=dict(argv=c[1], multi=c[2]), observed=ri, required='a parse or an error'))
        if ri != rm:
            res.disagreements.append(dict(name='C07/query-parse', case=dict(argv=c[1], multi=c[2]), impl=ri, model=rm))
        if ri.startswith('OK ') and re.search(r' [&|] |\(! |payee|code|note|has_tag', ri):
            res.nontrivial.add('q:%d:%s' % (c[2], '\x1f'.join(c[1])))
        if c[0] == 'tree':
            # oracle: a rendered query tree must parse (the generator only writes well-formed queries)
            if not ri.startswith('OK '):
                res.violations.append(dict(key='query:wellformed-rejected', desc='well-formed query %r (intended %s) was not parsed: %s' % (c[1], render_expr(c[4]), ri),
                                           case=dict(argv=c[1], multi=c[2]), observed=ri, required='a predicate equivalent to ' + render_expr(c[4])))
        if len(res.samples) < 3 and c[0] == 'tree' and len(c[1]) > 3:
            res.samples.append(dict(argv=c[1], multi=c[2], impl=ri, model=rm))


def part_b(ctx, rng, res, scale):
    nj = ctx.scale(260, 1500) * scale
    jobs, metas = [], []
    for j in range(nj):
        text, posts = gen_journal(rng, rng.choice([3, 4, 5, 6, 9]))
        path = ctx.path('j%d.dat' % j)
        open(path, 'w').write(text)
        P = gen_pred(rng, posts, rng.choice([0, 1, 2, 2, 3, 4]))
        Q = gen_pred(rng, posts, rng.choice([0, 1, 1, 2, 3]))
        argv, ext, E = gen_query_case(rng, posts, rng.choice([1, 2, 3, 4]), True)
        argv2, ext2, E2 = gen_query_case(rng, posts, rng.choice([1, 2, 3]), True)
        dates = sorted({(p['date'] or p['xdate']) for p in posts})
        def pickdate():
            r = rng.random()
            if r < 0.6:
                return rng.choice(dates) + datetime.timedelta(days=rng.choice([0, 0, 0, 1, -1]))
            if r < 0.8:
                return dates[0] - datetime.timedelta(days=rng.choice([0, 1, 30]))
            return dates[-1] + datetime.timedelta(days=rng.choice([0, 1, 2, 30]))
        db, de = pickdate(), pickdate()
        ds = lambda d: d.strftime(rng.choice(['%Y/%m/%d', '%Y-%m-%d']))
        tP, tQ = render_expr(P, rng), render_expr(Q, rng)
        runs = [
            ('all', []),
            ('P', [('e', tP, P)]),
            ('notP', [('e', '%s(%s)' % (rng.choice(['!', 'not ']), tP), ('not', P))]),
            ('Q', [('e', tQ, Q)]),
            ('PandQ', [('e', '(%s)%s(%s)' % (tP, rng.choice(['&', ' and ']), tQ), ('and', P, Q))]),
            ('PorQ', [('e', '(%s)%s(%s)' % (tP, rng.choice(['|', ' or ']), tQ), ('or', P, Q))]),
            ('PQ2', [('e', tP, P), ('e', tQ, Q)]),
            ('qry', [('qry', argv, ext)]),
            ('qexpr', [('e', render_expr(E, rng), E)]),
            ('qry2', [('qry', argv2, ext2)]),
            ('qexpr2', [('e', render_expr(E2, rng), E2)]),
            ('begin', [('begin', ds(db), db)]),
            ('end', [('end', ds(db), db)]),
            ('range', [('begin', ds(db), db), ('end', ds(de), de)]),
            ('Pq', [('e', tP, P), ('qry', argv, ext)]),
        ]
        metas.append(dict(j=j, path=path, posts=posts, runs=runs, text=text, P=tP, Q=tQ, argv=argv, E=render_expr(E),
                          argv2=argv2, E2=render_expr(E2), db=db, de=de))
        for name, limits in runs:
            jobs.append((path, limits))
    outs = pmap(lambda jb: run_reg(jb[0], jb[1]), jobs)
    lines = []
    for m in metas:
        lines.append(lib.sx(['f', 'j%d' % m['j'], ['posts'] + [post_sx(p) for p in m['posts']],
                             ['runs'] + [['run', name] + [limit_sx(l) for l in limits] for name, limits in m['runs']]]))
    model = lib.run_model('C07', lines)
    k = 0
    for m in metas:
        got = {}
        for name, limits in m['runs']:
            st, rows = outs[k]
            mo = model[k].split(' ', 2)
            k += 1
            assert mo[1] == name, (mo, name)
            mstat = 'ERR' if mo[2].startswith(('ERR', 'QERR')) else 'OK'
            mrows = [r for r in mo[2][3:].split(';') if r] if mstat == 'OK' else []
            got[name] = (st, rows)
            res.evaluations += 1
            res.traces += 1
            res.count('b:%s:%s' % (name, st))
            case = dict(journal=m['text'], run=name, limits=[(l[0], l[1]) for l in limits])
            if st.startswith('CRASH'):
                res.violations.append(dict(key='filter:crash', desc='reg died (%s) under %s' % (st, case['limits']), case=case,
                                           observed=st, required='a report or an error'))
                continue
            irows = [canon_row(r) for r in rows]
            if st != mstat or (st == 'OK' and irows != mrows):
                res.disagreements.append(dict(name='C07/filter-rows', case=case, impl=[st] + irows, model=[mstat] + mrows))
            nall = len(m['posts'])
            if st == 'ERR' or (0 < len(rows) < nall):
                res.nontrivial.add('f:%d:%s' % (m['j'], name))
        oracle_b(res, m, got)
        if len(res.samples) < 5 and m['j'] < 2:
            res.samples.append(dict(journal=m['text'][:600], P=m['P'], query=m['argv'], rows_P=got['P'][1][:3]))


def ids(rows):
    return [r.split('|')[0] for r in rows]


def oracle_b(res, m, got):
    """the property text, evaluated on ledger's own paired outputs"""
    def viol(key, desc, runs, observed, required):
        res.violations.append(dict(key=key, desc=desc,
                                   case=dict(journal=m['text'], P=m['P'], Q=m['Q'], argv=m['argv'], E=m['E'], argv2=m['argv2'],
                                             E2=m['E2'], begin=str(m['db']), end=str(m['de']), runs=runs),
                                   observed=observed, required=required))
    st_all, rall = got['all']
    if st_all != 'OK':
        viol('filter:unfiltered-report-fails', 'reg without a limit failed', ['all'], st_all, 'a report')
        return
    want_ids = [str(p['id']) for p in m['posts']] if m.get('posts') is not None else ids(rall)
    if ids(rall) != want_ids:
        # not a property violation by itself: the harness' line numbering disagrees with ledger's
        res.disagreements.append(dict(name='C07/journal-rendering', case=m['text'], impl=ids(rall), model=want_ids))
        return
    byid = {r.split('|')[0]: r for r in rall}

    def ok(name):
        return got[name][0] == 'OK'

    def subseq(name):
        """rows of a filtered run must be rows of the unfiltered run, unchanged and in order"""
        rows = got[name][1]
        for r in rows:
            if byid.get(r.split('|')[0]) != r:
                viol('filter:row-altered', 'a row reported under %s differs from the unfiltered row' % name, [name, 'all'], r,
                     byid.get(r.split('|')[0], 'no such posting'))
                return False
        pos = [want_ids.index(i) for i in ids(rows)]
        if pos != sorted(pos) or len(set(pos)) != len(pos):
            viol('filter:order-or-duplicate', 'rows under %s are not an order-preserving sub-sequence' % name, [name, 'all'], ids(rows), want_ids)
            return False
        return True

    for name in got:
        if name != 'all' and ok(name):
            subseq(name)
    if ok('P') and ok('notP'):
        a, b = set(ids(got['P'][1])), set(ids(got['notP'][1]))
        if a & b:
            viol('partition:overlap', 'postings selected by both P and not P', ['P', 'notP'], sorted(a & b), 'disjoint')
        if (a | b) != set(want_ids):
            viol('partition:missing', 'P and not P together are not all postings', ['P', 'notP', 'all'], sorted(set(want_ids) - (a | b)), 'union = all')
    elif ok('P') != ok('notP'):
        viol('partition:error-one-side', 'P and not P do not fail together', ['P', 'notP'], (got['P'][0], got['notP'][0]), 'both succeed or both fail')
    if ok('P') and ok('Q'):
        a, b = set(ids(got['P'][1])), set(ids(got['Q'][1]))
        if ok('PandQ') and set(ids(got['PandQ'][1])) != (a & b):
            viol('and:not-intersection', '(P)&(Q) is not the intersection', ['P', 'Q', 'PandQ'], ids(got['PandQ'][1]), sorted(a & b, key=int))
        if ok('PorQ') and set(ids(got['PorQ'][1])) != (a | b):
            viol('or:not-union', '(P)|(Q) is not the union', ['P', 'Q', 'PorQ'], ids(got['PorQ'][1]), sorted(a | b, key=int))
        if ok('PQ2') and set(ids(got['PQ2'][1])) != (a & b):
            viol('and:two-limit-options', '--limit P --limit Q is not the intersection', ['P', 'Q', 'PQ2'], ids(got['PQ2'][1]), sorted(a & b, key=int))
        if not ok('PandQ') or not ok('PorQ'):
            viol('and-or:fails-though-operands-succeed', 'P and Q evaluate but their combination fails', ['PandQ', 'PorQ'],
                 (got['PandQ'][0], got['PorQ'][0]), 'OK')
    for q, e in (('qry', 'qexpr'), ('qry2', 'qexpr2')):
        if got[q][0] != got[e][0] or (ok(q) and got[q][1] != got[e][1]):
            viol('query:differs-from-expression', 'the command-line query and its equivalent expression select different postings',
                 [q, e], (got[q][0], ids(got[q][1])), (got[e][0], ids(got[e][1])))
    if ok('P') and ok('qry') and ok('Pq'):
        a, b = set(ids(got['P'][1])), set(ids(got['qry'][1]))
        if set(ids(got['Pq'][1])) != (a & b):
            viol('and:limit-with-query', '--limit P with a query is not the intersection', ['P', 'qry', 'Pq'], ids(got['Pq'][1]), sorted(a & b, key=int))
    # --begin / --end
    dates = {r.split('|')[0]: r.split('|')[4] for r in rall}
    db, de = m['db'].isoformat(), m['de'].isoformat()
    if ok('begin'):
        want = [i for i in want_ids if dates[i] >= db]
        if ids(got['begin'][1]) != want:
            viol('begin:boundary', '--begin %s does not keep exactly the postings dated on or after it' % db, ['begin'], ids(got['begin'][1]), want)
    else:
        viol('begin:fails', '--begin %s failed' % db, ['begin'], got['begin'][0], 'a report')
    if ok('end'):
        want = [i for i in want_ids if dates[i] < db]
        if ids(got['end'][1]) != want:
            viol('end:boundary', '--end %s does not keep exactly the postings dated before it' % db, ['end'], ids(got['end'][1]), want)
    else:
        viol('end:fails', '--end %s failed' % db, ['end'], got['end'][0], 'a report')
    if ok('range'):
        want = [i for i in want_ids if db <= dates[i] < de]
        if ids(got['range'][1]) != want:
            viol('range:boundary', '--begin %s --end %s does not keep exactly the postings in between' % (db, de), ['range'], ids(got['range'][1]), want)


# ---------------------------------------------------------------- (c) option sequences
FLAGS = {'cleared': ['-C', '--cleared'], 'uncleared': ['-U', '--uncleared'], 'pending': ['--pending'],
         'real': ['-R', '--real'], 'actual': ['-L', '--actual']}


def item_args(rng, it):
    """one limit contribution -> its command-line words (spelling picked at random)"""
    k = it[0]
    pick = (lambda l: rng.choice(l)) if rng else (lambda l: l[0])
    dfmt = lambda d: d.strftime(pick(['%Y/%m/%d', '%Y-%m-%d']))
    if k == 'limit':
        return [pick(['--limit', '-l']), it[1]]
    if k == 'begin':
        return [pick(['-b', '--begin']), dfmt(it[1])]
    if k == 'end':
        return [pick(['-e', '--end']), dfmt(it[1])]
    if k == 'flag':
        return [pick(FLAGS[it[1]])]
    if k == 'current':
        return [pick(['-c', '--current'])]
    if k == 'pfrom':
        return [pick(['-p', '--period']), pick(['from ', 'since ']) + dfmt(it[1])]
    if k == 'pto':
        return [pick(['-p', '--period']), pick(['to ', 'until ']) + dfmt(it[1])]
    raise ValueError(k)


def seq_args(rng, items):
    opts, tail = [], []
    for it in items:
        if it[0] == 'qry':
            tail = list(it[1])
        else:
            opts += item_args(rng, it)
    return opts, tail


def run_seq(journal, now, opts, tail):
    args = ['-f', journal, '--now', now.strftime('%Y/%m/%d')] + opts + ['reg', '--empty', '--format', FMT] + tail
    st, out, err = lib.run_ledger(args)
    if st not in (0, 1):
        return 'CRASH(%s)' % st, []
    if st != 0 or b'Error' in err:
        return 'ERR', []
    return 'OK', [r for r in out.decode('utf-8', 'replace').split('\n') if r]


def seq_sx(items, now):
    """the model's view of a sequence: contributions in order, one period entry, the query"""
    out, pf, pt = [], '~', '~'
    br = lambda d: [hb('[%s]' % d.strftime('%Y/%m/%d')), d.toordinal()]
    for it in items:
        k = it[0]
        if k == 'limit':
            out.append(['e', expr_sx(it[2])])
        elif k == 'begin':
            out.append(['begin'] + br(it[1]))
        elif k == 'end':
            out.append(['end'] + br(it[1]))
        elif k == 'flag':
            out.append(['flag', it[1]])
        elif k == 'current':
            out.append(['current', hb('today')])
        elif k == 'pfrom':
            pf = br(it[1])
        elif k == 'pto':
            pt = br(it[1])
        elif k == 'qry':
            out.append(['qry', 1, [hb(a) for a in it[1]], ['ext'] + [[hb(t), expr_sx(e)] for t, e in it[2]]])
    if pf != '~' or pt != '~':
        out.append(['period', pf, pt])
    out.append(['now', now.toordinal()])
    return out


def gen_item(rng, posts, dates):
    r = rng.random()
    d = lambda: rng.choice(dates) + datetime.timedelta(days=rng.choice([0, 0, 1, -1, 7]))
    if r < 0.28:
        e = gen_pred(rng, posts, rng.choice([0, 0, 1, 1, 2]))
        if rng.random() < 0.25:
            # a user expression that contains the parenthesised text of an option's condition
            c = rng.choice(['cleared', 'real', 'pending', 'actual'])
            e = ('or', ('id', c), e)
            return ('limit', '(%s) | %s' % (c, render_expr(e[2])), e)
        return ('limit', render_expr(e, rng), e)
    if r < 0.40:
        return ('begin', d())
    if r < 0.50:
        return ('end', d())
    if r < 0.78:
        return ('flag', rng.choice(['cleared', 'cleared', 'uncleared', 'pending', 'real', 'real', 'actual']))
    if r < 0.86:
        return ('current',)
    if r < 0.93:
        return ('pfrom', d())
    return ('pto', d())


def item_key(it):
    return (it[0],) + tuple(str(x) for x in it[1:2])


def part_c(ctx, rng, res, scale):
    nc = ctx.scale(220, 1400) * scale
    jobs, metas = [], []
    for j in range(nc):
        text, posts = gen_journal(rng, rng.choice([3, 4, 5, 6]))
        path = ctx.path('s%d.dat' % j)
        open(path, 'w').write(text)
        dates = sorted({(p['date'] or p['xdate']) for p in posts})
        now = rng.choice(dates) + datetime.timedelta(days=rng.choice([0, 0, 1, -1, 3]))
        # a small pool, drawn from with replacement: A B A, A A, -b D1 -b D2, ...
        pool = []
        for _ in range(rng.choice([1, 2, 2, 3, 3, 4])):
            it = gen_item(rng, posts, dates)
            if it[0] in ('pfrom', 'pto') and any(x[0] == it[0] for x in pool):
                continue
            pool.append(it)
        if rng.random() < 0.3:
            argv, ext, E = gen_query_case(rng, posts, rng.choice([1, 2]), True)
            pool.append(('qry', argv, ext, E))
        n = rng.choice([1, 2, 3, 3, 4, 4, 5, 6])
        seq, once = [], set()
        for _ in range(n):
            it = rng.choice(pool)
            if it[0] in ('pfrom', 'pto', 'qry'):
                if it[0] in once:
                    continue
                once.add(it[0])
            seq.append(it)
        if len(pool) >= 2 and len(seq) >= 2 and rng.random() < 0.5 and seq[0][0] not in ('pfrom', 'pto', 'qry'):
            seq.append(seq[0])                       # ... A again after something else
        if not seq:
            seq = [pool[0]]
        perm = list(seq)
        rng.shuffle(perm)
        dedup = []
        for it in seq:
            if item_key(it) not in [item_key(x) for x in dedup]:
                dedup.append(it)
        runs = [('all', []), ('seq', seq), ('perm', perm), ('dedup', dedup)] + [('alone%d' % i, [it]) for i, it in enumerate(dedup)]
        cmds = []
        for name, items in runs:
            opts, tail = seq_args(rng, items)
            cmds.append((opts, tail))
            jobs.append((path, now, opts, tail))
        metas.append(dict(j=j, path=path, text=text, posts=posts, now=now, runs=runs, cmds=cmds, dedup=dedup, seq=seq))
    outs = pmap(lambda jb: run_seq(*jb), jobs)
    lines = [lib.sx(['f', 'c%d' % m['j'], ['posts'] + [post_sx(p) for p in m['posts']],
                     ['runs'] + [['run', name] + seq_sx(items, m['now']) for name, items in m['runs']]]) for m in metas]
    model = lib.run_model('C07', lines)
    k = 0
    for m in metas:
        got = {}
        nall = len(m['posts'])
        for (name, items), (opts, tail) in zip(m['runs'], m['cmds']):
            st, rows = outs[k]
            mo = model[k].split(' ', 2)
            k += 1
            mstat = 'ERR' if mo[2].startswith(('ERR', 'QERR')) else 'OK'
            mrows = [r for r in mo[2][3:].split(';') if r] if mstat == 'OK' else []
            got[name] = (st, rows)
            res.evaluations += 1
            res.traces += 1
            res.count('c:%s:%s' % (re.sub(r'\d+', '', name), st))
            case = dict(journal=m['text'], now=str(m['now']), seq=[opts + ['reg'] + tail])
            if st.startswith('CRASH'):
                res.violations.append(dict(key='sequence:crash', desc='reg died (%s) under %s' % (st, opts + tail), case=case,
                                           observed=st, required='a report or an error'))
                continue
            irows = [canon_row(r) for r in rows]
            if st != mstat or (st == 'OK' and irows != mrows):
                res.disagreements.append(dict(name='C07/sequence-rows', case=case, impl=[st] + irows, model=[mstat] + mrows))
            if name == 'seq':
                for it in items:
                    res.count('c:item:' + it[0])
                res.count('c:len:%d' % len(items))
                if len(items) != len(m['dedup']) or (st == 'OK' and 0 < len(rows) < nall):
                    res.nontrivial.add('s:%d' % m['j'])
        oracle_c(res, m, got)
        if m['j'] == 0:
            res.samples.append(dict(sequence=m['cmds'][1][0] + ['reg'] + m['cmds'][1][1], now=str(m['now']), rows=ids(got['seq'][1])))


def oracle_c(res, m, got):
    """the selected postings are the intersection of what each contribution selects alone,
    whatever the order and multiplicity"""
    cmd = lambda i: m['cmds'][i][0] + ['reg'] + m['cmds'][i][1]
    names = [n for n, _ in m['runs']]

    def viol(key, desc, observed, required):
        res.violations.append(dict(key=key, desc=desc,
                                   case=dict(journal=m['text'], now=str(m['now']), seq=[cmd(i) for i in range(len(names))], names=names),
                                   observed=observed, required=required))
    if got['all'][0] != 'OK':
        return
    all_ids = ids(got['all'][1])
    alone = [(it, got['alone%d' % i]) for i, it in enumerate(m['dedup'])]
    if any(g[0] != 'OK' for _, g in alone):
        return                                           # a condition that fails by itself: nothing to intersect
    has_b = any(it[0] == 'begin' for it in m['seq'])
    has_e = any(it[0] == 'end' for it in m['seq'])
    sets = [set(ids(g[1])) for it, g in alone
            if not (it[0] == 'pfrom' and has_b) and not (it[0] == 'pto' and has_e)]   # -b / -e override the -p bound
    want = [i for i in all_ids if all(i in s_ for s_ in sets)]
    # what the intersection would be if -c contributed nothing (finding F95: -e moves `today`)
    sets_noc = [set(ids(g[1])) for it, g in alone
                if it[0] != 'current' and not (it[0] == 'pfrom' and has_b) and not (it[0] == 'pto' and has_e)]
    want_noc = [i for i in all_ids if all(i in s_ for s_ in sets_noc)]
    has_c = any(it[0] == 'current' for it in m['seq'])
    for name in ('seq', 'perm', 'dedup'):
        st, rows = got[name]
        if st == 'OK' and ids(rows) != want and has_c and has_e and ids(rows) == want_noc:
            viol('sequence:current-ignored-with-end', '%s reports %s: -c (date<=today) stopped limiting because -e moved `today`; '
                 'the intersection of the contributions taken alone is %s' % (' '.join(cmd(names.index(name))), ids(rows), want), ids(rows), want)
            return
        if st != 'OK':
            viol('sequence:fails-though-each-succeeds', 'every contribution alone gives a report but %s fails' % cmd(names.index(name)), st, want)
        elif ids(rows) != want:
            key = {'seq': 'sequence:not-intersection', 'perm': 'sequence:order-dependent', 'dedup': 'sequence:not-intersection'}[name]
            if name != 'dedup' and ids(got['dedup'][1]) == want and got['dedup'][0] == 'OK' and len(m['seq']) != len(m['dedup']):
                key = 'sequence:repetition-dependent'
            viol(key, '%s selects %s, the intersection of its contributions taken alone is %s' % (' '.join(cmd(names.index(name))), ids(rows), want),
                 ids(rows), want)
            return


# ---------------------------------------------------------------- (d) posting-flag identifiers against the display
FMT_D = FMT[:-2] + '|%(display_account)|%(xact.beg_line)\\n'
RULE_ACCOUNTS = ('Budget:Auto', 'Rule:Left', 'Rule:Right')
FLAG_IDS = ['virtual', 'real', 'cleared', 'pending', 'uncleared', 'actual']


def gen_flag_tree(rng, names, depth):
    if depth <= 0 or rng.random() < 0.3:
        return ('id', rng.choice(names))
    r = rng.random()
    if r < 0.3:
        return ('not', gen_flag_tree(rng, names, depth - 1))
    return (rng.choice(['and', 'or']), gen_flag_tree(rng, names, depth - 1), gen_flag_tree(rng, names, depth - 1))


def flag_eval(t, fl):
    if t[0] == 'id':
        return fl[t[1]]
    if t[0] == 'not':
        return not flag_eval(t[1], fl)
    a, b = flag_eval(t[1], fl), flag_eval(t[2], fl)
    return (a and b) if t[0] == 'and' else (a or b)


def flag_query(rng, t):
    """a flag tree as a command-line query: expr ID leaves, query-level not/and/or -> (argv, ext)"""
    ext = []

    def go(t, lvl):
        if t[0] == 'id':
            ext.append((t[1], t))
            return ['expr', t[1]]
        if t[0] == 'not':
            return [rng.choice(['not', '!']), '('] + go(t[1], 0) + [')']
        op = {'and': ['and', '&'], 'or': ['or', '|']}[t[0]]
        inner = ['('] + go(t[1], 0) + [')', rng.choice(op), '('] + go(t[2], 0) + [')']
        return inner
    return go(t, 0), ext


def run_reg_d(journal, limits):
    args = ['-f', journal, '--now', NOW, 'reg', '--empty', '--format', FMT_D]
    tail = []
    for l in limits:
        if l[0] == 'e':
            args += ['--limit', l[1]]
        else:
            tail += list(l[1])
    st, out, err = lib.run_ledger(args + tail)
    if st not in (0, 1):
        return 'CRASH(%s)' % st, []
    if st != 0 or b'Error' in err:
        return 'ERR', []
    return 'OK', [r for r in out.decode('utf-8', 'replace').split('\n') if r]


def part_d(ctx, rng, res, scale):
    nd = ctx.scale(110, 700) * scale
    jobs, metas = [], []
    for j in range(nd):
        rule = rng.random() < 0.3
        header = []
        if rule:
            header = ['= /%s/' % rng.choice(['Expenses', 'Assets:Cash', 'Income', 'Food', 'a'])]
            k = rng.choice([0, 1, 2])
            if k in (0, 2):
                header.append('    (Budget:Auto)    %s' % rng.choice(['0.5', '2', '$1.00']))
            if k in (1, 2):
                header += ['    [Rule:Left]    $1.00', '    [Rule:Right]    $-1.00']
            header.append('')
        text, posts = gen_journal(rng, rng.choice([2, 3, 4, 5]), header=header)
        path = ctx.path('d%d.dat' % j)
        open(path, 'w').write(text)
        names = ['virtual', 'real', 'actual'] if rule else FLAG_IDS
        runs = [('all', [], None)]
        for n in names:
            t = ('id', n)
            runs.append(('is:' + n, [('e', n, t)], t))
            runs.append(('not:' + n, [('e', rng.choice(['!%s', 'not %s', '!(%s)']) % n, ('not', t))], ('not', t)))
            runs.append(('q:' + n, [('qry', ['expr', n], [(n, t)])], t))
        for i in range(4):
            t = gen_flag_tree(rng, names, rng.choice([1, 2, 2, 3]))
            if i % 2 == 0:
                runs.append(('tree%d' % i, [('e', render_expr(t, rng), t)], t))
            else:
                argv, ext = flag_query(rng, t)
                runs.append(('qtree%d' % i, [('qry', argv, ext)], t))
        metas.append(dict(j=j, path=path, text=text, posts=posts, rule=rule, runs=runs))
        for name, limits, _ in runs:
            jobs.append((path, limits))
    outs = pmap(lambda jb: run_reg_d(jb[0], jb[1]), jobs)
    lines = [lib.sx(['f', 'd%d' % m['j'], ['posts'] + [post_sx(p) for p in m['posts']],
                     ['runs'] + [['run', name.replace(':', '_')] + [limit_sx(l) for l in limits] for name, limits, _ in m['runs']]])
             for m in metas if not m['rule']]
    model = iter(lib.run_model('C07', lines))
    k = 0
    for m in metas:
        got = {}
        for name, limits, t in m['runs']:
            st, rows = outs[k]
            k += 1
            got[name] = (st, rows)
            res.evaluations += 1
            res.count('d:%s:%s' % (name.split(':')[0].rstrip('0123456789'), st))
            res.nontrivial.add('d:%d:%s' % (m['j'], name))
            case = dict(journal=m['text'], flagrun=name, limits=[(l[0], l[1]) for l in limits])
            if st.startswith('CRASH'):
                res.violations.append(dict(key='flag:crash', desc='reg died (%s) under %s' % (st, case['limits']), case=case,
                                           observed=st, required='a report'))
            if not m['rule']:
                mo = next(model).split(' ', 2)
                res.traces += 1
                mstat = 'ERR' if mo[2].startswith(('ERR', 'QERR')) else 'OK'
                mrows = [r for r in mo[2][3:].split(';') if r] if mstat == 'OK' else []
                irows = [canon_row(r) for r in rows]
                if st != mstat or (st == 'OK' and irows != mrows):
                    res.disagreements.append(dict(name='C07/flag-rows', case=case, impl=[st] + irows, model=[mstat] + mrows))
        res.count('d:journal:' + ('with-rule' if m['rule'] else 'plain'))
        if any(p['virtual'] and '[%s]' % p['account'] in m['text'] for p in m['posts']):
            res.count('d:journal:has-balanced-virtual')
        oracle_d(res, m, got)


def oracle_d(res, m, got):
    """each flag identifier selects exactly the postings the register displays that way"""
    from collections import Counter

    def viol(key, desc, runs, observed, required):
        res.violations.append(dict(key=key, desc=desc,
                                   case=dict(journal=m['text'], flagruns=[(n, [(l[0], l[1]) for l in lim]) for n, lim, _ in m['runs'] if n in runs]),
                                   observed=observed, required=required))
    st, rall = got['all']
    if st != 'OK':
        viol('flag:unfiltered-report-fails', 'reg without a limit failed', ['all'], st, 'a report')
        return
    marks = {str(p['id']): p['state'] for p in m['posts']}

    def flags(row):
        f = row.split('|')
        disp, acct = f[6], f[1]
        virt = disp[:1] in '([' and disp[-1:] in ')]'
        fl = dict(virtual=virt, real=not virt, actual=acct not in RULE_ACCOUNTS)
        s_ = marks.get(f[0]) if fl['actual'] else None
        if s_ is not None:
            fl.update(cleared=s_ == 'c', pending=s_ == 'p', uncleared=s_ == 'u')
        return fl
    # the display itself must agree with how the journal writes each actual posting
    for row in rall:
        f = row.split('|')
        if f[1] in RULE_ACCOUNTS:
            continue
        p = [q for q in m['posts'] if str(q['id']) == f[0]]
        if not p:
            res.disagreements.append(dict(name='C07/journal-rendering', case=m['text'], impl=row, model='no such posting'))
            return
        shown = f[6][:1] in '(['
        if shown != p[0]['virtual']:
            viol('flag:display-account', 'a posting written %s is displayed as %s' % ('virtual' if p[0]['virtual'] else 'real', f[6]),
                 ['all'], row, 'parentheses/brackets exactly for virtual postings')
    for name, limits, t in m['runs']:
        if t is None:
            continue
        st, rows = got[name]
        want = [r for r in rall if flag_eval(t, flags(r))]
        if st != 'OK':
            viol('flag:%s:fails' % name.split(':')[-1].rstrip('0123456789'), '%s failed' % (limits,), [name], st, 'a report')
        elif rows != want:
            kind = name.split(':')[0].rstrip('0123456789')
            ident = name.split(':')[1] if ':' in name else 'combination'
            key = 'flag:%s:%s' % (ident, {'is': 'limit-vs-display', 'not': 'negation-vs-display', 'q': 'query-expr-vs-display',
                                         'tree': 'combination-vs-display', 'qtree': 'query-combination-vs-display'}[kind])
            viol(key, '%s reports %d rows %s; by the display (account shown as (A)/[A]/bare, state marks, rule accounts) it must report %s'
                 % (' '.join(str(x) for l in limits for x in ([l[1]] if l[0] == 'e' else l[1])), len(rows),
                    [r.split('|')[0] + ':' + r.split('|')[6] for r in rows], [r.split('|')[0] + ':' + r.split('|')[6] for r in want]),
                 [name, 'all'], [r.split('|')[0] for r in rows], [r.split('|')[0] for r in want])
            return
    # relations between the identifiers
    def rows_of(n):
        return got[n][1] if got[n][0] == 'OK' else None
    v, nr = rows_of('is:virtual'), rows_of('not:real')
    if v is not None and nr is not None and v != nr:
        viol('flag:virtual-differs-from-not-real', '--limit virtual and --limit "not real" select different postings', ['is:virtual', 'not:real'],
             [r.split('|')[0] for r in v], [r.split('|')[0] for r in nr])
    r_ = rows_of('is:real')
    if v is not None and r_ is not None and Counter(v) + Counter(r_) != Counter(rall):
        viol('flag:virtual-real-not-a-partition', 'virtual and real together are not all postings (or overlap)', ['is:virtual', 'is:real', 'all'],
             (len(v), len(r_)), len(rall))
    if not m['rule']:
        parts = [rows_of('is:' + n) for n in ('cleared', 'pending', 'uncleared')]
        if all(x is not None for x in parts) and sum((Counter(x) for x in parts), Counter()) != Counter(rall):
            viol('flag:state-not-a-partition', 'cleared, pending and uncleared do not partition the postings', ['is:cleared', 'is:pending', 'is:uncleared'],
                 [len(x) for x in parts], len(rall))


# ---------------------------------------------------------------- (e) comparison operators at their boundary, query path
OPS = ['==', '!=', '<', '<=', '>', '>=']


def cmp_py(op, a, b):
    return {'==': a == b, '!=': a != b, '<': a < b, '<=': a <= b, '>': a > b, '>=': a >= b}[op]


def row_amount(row):
    m = re.fullmatch(r'A:([0-9a-f]*):(-?\d+)/(\d+):\d+:[01]', row.split('|')[3])
    return (bytes.fromhex(m.group(1)).decode(), F(int(m.group(2)), int(m.group(3)))) if m else None


def expect_cmp(leaf, row):
    """does the displayed row satisfy the comparison?  None = the property text does not say
    (amounts of different commodities)"""
    _, op, l, r = leaf
    const, ident, flip = (r, l, False) if l[0] == 'id' else (l, r, True)
    if ident[1] == 'date':
        a, b = row.split('|')[4], const[2].isoformat()
    else:
        sym, q = row_amount(row)
        if const[3] and const[3] != sym:
            return None
        if not const[3] and op in ('==', '!='):
            # amount_t::operator== also compares the commodity: a bare number equals no commoditized amount
            return (op == '!=') if sym else cmp_py(op, q, const[2])
        a, b = q, const[2]
    return cmp_py(op, b, a) if flip else cmp_py(op, a, b)


def expect_tree(t, row):
    if t[0] == 'cmp':
        return expect_cmp(t, row)
    if t[0] == 'not':
        v = expect_tree(t[1], row)
        return None if v is None else not v
    a, b = expect_tree(t[1], row), expect_tree(t[2], row)
    if t[0] == 'and':
        return False if (a is False or b is False) else (None if None in (a, b) else True)
    return True if (a is True or b is True) else (None if None in (a, b) else False)


def part_e(ctx, rng, res, scale):
    ne = ctx.scale(50, 350) * scale
    jobs, metas = [], []
    for j in range(ne):
        text, posts = gen_journal(rng, rng.choice([3, 4, 5]))
        path = ctx.path('e%d.dat' % j)
        open(path, 'w').write(text)
        p1, p2 = rng.choice(posts), rng.choice(posts)
        d = p1['date'] or p1['xdate']
        comm = [c for c in COMMS if c[0] == p2['comm']][0]
        consts = [('const', 'date', d)]
        if comm[2] == 2 or p2['q'].denominator == 1:
            consts.append(('const', 'amt', p2['q'], comm[0], amt_text(p2['q'], comm)) if p2['q'] >= 0 and rng.random() < 0.7 else
                          ('const', 'amt', abs(p2['q']), '', str(abs(p2['q'])) if abs(p2['q']).denominator == 1 else '%.2f' % float(abs(p2['q']))))
        runs = [('all', [], None)]
        leaves = []
        for c in consts:
            ident = ('id', 'date' if c[1] == 'date' else 'amount')
            for op in OPS:
                leaf = ('cmp', op, ident, c) if rng.random() < 0.8 else ('cmp', op, c, ident)
                leaves.append(leaf)
                txt = render_expr(leaf)
                tag = '%s%s' % (ident[1], op)
                runs.append(('q:' + tag, [('qry', ['expr', txt], [(txt, leaf)])], leaf))
                runs.append(('l:' + tag, [('e', txt, leaf)], leaf))
        for i in range(3):
            a, b = rng.choice(leaves), rng.choice(leaves)
            ta, tb = render_expr(a), render_expr(b)
            k = rng.randrange(3)
            if k == 0:
                runs.append(('qnot%d' % i, [('qry', [rng.choice(['not', '!']), 'expr', ta], [(ta, a)])], ('not', a)))
            elif k == 1:
                runs.append(('qand%d' % i, [('qry', ['expr', ta, rng.choice(['and', '&']), 'expr', tb], [(ta, a), (tb, b)])], ('and', a, b)))
            else:
                t = (rng.choice(['and', 'or']), a, ('not', b))
                txt = render_expr(t, rng)
                runs.append(('qin%d' % i, [('qry', ['expr', txt], [(txt, t)])], t))
        metas.append(dict(j=j, path=path, text=text, posts=posts, runs=runs))
        for name, limits, _ in runs:
            jobs.append((path, limits))
    outs = pmap(lambda jb: run_reg_d(jb[0], jb[1]), jobs)
    lines = [lib.sx(['f', 'e%d' % m['j'], ['posts'] + [post_sx(p) for p in m['posts']],
                     ['runs'] + [['run', 'r%d' % i] + [limit_sx(l) for l in limits] for i, (name, limits, _) in enumerate(m['runs'])]])
             for m in metas]
    model = lib.run_model('C07', lines)
    k = 0
    for m in metas:
        rall = outs[k][1]
        for name, limits, t in m['runs']:
            st, rows = outs[k]
            mo = model[k].split(' ', 2)
            k += 1
            res.evaluations += 1
            res.traces += 1
            kind = name.split(':')[0].rstrip('0123456789')
            res.count('e:%s:%s' % (kind, st))
            res.nontrivial.add('e:%d:%s' % (m['j'], name))
            case = dict(journal=m['text'], flagrun=name, limits=[(l[0], l[1]) for l in limits])
            mstat = 'ERR' if mo[2].startswith(('ERR', 'QERR')) else 'OK'
            mrows = [r for r in mo[2][3:].split(';') if r] if mstat == 'OK' else []
            irows = [canon_row(r) for r in rows]
            if st != mstat or (st == 'OK' and irows != mrows):
                res.disagreements.append(dict(name='C07/comparison-rows', case=case, impl=[st] + irows, model=[mstat] + mrows))
            if t is None:
                continue
            what = ' '.join(str(x) for l in limits for x in ([l[1]] if l[0] == 'e' else l[1]))
            opname = name.split(':')[1] if ':' in name else 'combination'
            via = {'q': 'query', 'l': 'limit'}.get(kind, 'query-combination')
            if st != 'OK':
                res.violations.append(dict(key='compare:%s:%s:fails' % (via, opname), desc='%s failed' % what,
                                           case=dict(journal=m['text'], flagruns=[(name, [(l[0], l[1]) for l in limits])]), observed=st, required='a report'))
                continue
            sel = set(rows)
            for r in rall:
                want = expect_tree(t, r)
                if want is not None and (r in sel) != want:
                    f = r.split('|')
                    res.violations.append(dict(
                        key='compare:%s:%s' % (via, opname),
                        desc='%s %s the posting on line %s (date %s, amount %s/%s of %s), which the comparison %s'
                             % (what, 'reports' if r in sel else 'omits', f[0], f[4], row_amount(r)[1].numerator, row_amount(r)[1].denominator,
                                row_amount(r)[0] or 'no commodity', 'excludes' if r in sel else 'includes'),
                        case=dict(journal=m['text'], flagruns=[('all', []), (name, [(l[0], l[1]) for l in limits])], line=f[0], want=want),
                        observed=[x.split('|')[0] for x in rows], required='line %s %s' % (f[0], 'in' if want else 'out')))
                    break


# ---------------------------------------------------------------- (f) tag queries with a value against the displayed tags
FTAGS = ['food', 'Foodie', 'trip', 'rip', 'Project', 'Proj2', 'client']
FVALS = ['alpha', 'beta', 'Gamma', 'alphabet', 'be', 'tab', 'one']
FMT_F = FMT[:-2] + '|' + ';'.join('%%(tag("%s"))' % t for t in FTAGS) + '\\n'


def gen_tag_journal(rng, nx):
    """transactions whose postings (and some transactions) carry 0-3 valued tags `name: value`; the names of
    one posting and of its transaction are distinct, so %(tag("name")) displays every tag a posting has"""
    out, posts = [], []

    def emit(s):
        out.append(s)
        return len(out)

    def tagset(exclude, nmax):
        names = [t for t in rng.sample(FTAGS, rng.choice(list(range(nmax + 1)) + [2])) if t.lower() not in exclude]
        return {t: rng.choice(FVALS) for t in names}

    for _ in range(nx):
        xdate = D0 + datetime.timedelta(days=rng.randrange(0, 70))
        payee = rng.choice(PAYEES)
        xtags = tagset(set(), 1) if rng.random() < 0.4 else {}
        emit(xdate.strftime('%Y/%m/%d') + ' ' + payee)
        xlines = [' %s: %s' % kv for kv in xtags.items()]
        for l in xlines:
            emit('    ;' + l)
        q = F(rng.randrange(1, 5000), 100)
        for acct, amount in ((rng.choice(ACCOUNTS), q), (rng.choice(ACCOUNTS), -q)):
            ptags = tagset({t.lower() for t in xtags}, 3)
            items = list(ptags.items())
            rng.shuffle(items)
            plines = [' %s: %s' % kv for kv in items]
            ln = emit('    %s    %s' % (acct, amt_text(amount, COMMS[0])))
            for l in plines:
                emit('    ;' + l)
            posts.append(dict(id=ln, account=acct, payee=payee, code=None,
                              note='\n'.join(plines) if plines else None, xnote='\n'.join(xlines) if xlines else None,
                              tags=sorted(ptags.items(), key=lambda kv: kv[0].lower()),
                              xtags=sorted(xtags.items(), key=lambda kv: kv[0].lower()),
                              q=amount, comm='$', date=None, xdate=xdate, state='u', virtual=False))
        emit('')
    return '\n'.join(out) + '\n', posts


def shown_tags(row):
    """the tags the register displays for a row (FMT_F): name -> value"""
    vals = row.split('|')[6].split(';')
    return {n: v for n, v in zip(FTAGS, vals) if v}


def tag_expect(t, row):
    """property text / manual: `tag word=value` = any metadata tag containing 'word' whose value contains 'value'"""
    _, tp, vp = t
    return any(tp.lower() in n.lower() and (vp is None or vp.lower() in v.lower()) for n, v in shown_tags(row).items())


def tag_key(t, row, via, selected):
    kind = 'tag-value' if t[2] is not None else 'tag-name'
    if selected:
        return '%s:%s:reported-without-matching-tag' % (kind, via)
    n = sum(1 for name in shown_tags(row) if t[1].lower() in name.lower())
    return '%s:%s:omitted%s' % (kind, via, '-with-several-name-matching-tags' if n > 1 else '')


def run_reg_f(journal, limits):
    args = ['-f', journal, '--now', NOW, 'reg', '--empty', '--format', FMT_F]
    tail = []
    for l in limits:
        if l[0] == 'e':
            args += ['--limit', l[1]]
        else:
            tail += list(l[1])
    st, out, err = lib.run_ledger(args + tail)
    if st not in (0, 1):
        return 'CRASH(%s)' % st, []
    if st != 0 or b'Error' in err:
        return 'ERR', []
    return 'OK', [r for r in out.decode('utf-8', 'replace').split('\n') if r]


def tag_violation(res, text, name, limits, t, rall, st, rows):
    """evaluate the documented meaning of the tag term on the displayed tags; True when it holds"""
    what = ' '.join(str(x) for l in limits for x in ([l[1]] if l[0] == 'e' else l[1]))
    via = 'query' if limits[0][0] == 'qry' else 'limit'
    case = dict(journal=text, tagruns=[(name, [(l[0], l[1]) for l in limits], list(t))])
    if st != 'OK':
        res.violations.append(dict(key='tag-value:%s:fails' % via, desc='%s failed' % what, case=case, observed=st, required='a report'))
        return False
    sel = set(rows)
    for r in rall:
        want = tag_expect(t, r)
        if (r in sel) != want:
            f = r.split('|')
            res.violations.append(dict(
                key=tag_key(t, r, via, r in sel),
                desc='%s %s the posting on line %s, whose tags are displayed as %s; it %s a tag containing %r%s'
                     % (what, 'reports' if r in sel else 'omits', f[0], shown_tags(r), 'has' if want else 'has not', t[1],
                        '' if t[2] is None else ' whose value contains %r' % t[2]),
                case=dict(case, line=f[0], want=want), observed=[x.split('|')[0] for x in rows],
                required='line %s %s' % (f[0], 'in' if want else 'out')))
            return False
    return True


def part_f(ctx, rng, res, scale):
    nf = ctx.scale(60, 400) * scale
    jobs, metas = [], []
    for j in range(nf):
        text, posts = gen_tag_journal(rng, rng.choice([2, 3, 4]))
        path = ctx.path('t%d.dat' % j)
        open(path, 'w').write(text)
        runs = [('all', [], None)]
        for i in range(5):
            tp = flipcase(rng, rng.choice(['food', 'oo', 'rip', 'r', 'p', 'proj', 'o', 't', 'client', 'trip', 'i', 'zz']))
            vp = None if rng.random() < 0.25 else flipcase(rng, rng.choice(FVALS + ['a', 'e', 'al', 'zz']))
            t = ('tag', tp, vp)
            term = tp if vp is None else '%s=%s' % (tp, vp)
            argv = rng.choice([['%' + term], ['tag', term], ['meta', term], ['data', term], ['%', term]])
            if vp is not None and rng.random() < 0.2:
                argv = argv[:-1] + [argv[-1][:-len(vp)], vp]           # the value as an argument of its own
            runs.append(('q%d' % i, [('qry', argv, [])], t))
            runs.append(('l%d' % i, [('e', render_expr(t), t)], t))
        metas.append(dict(j=j, path=path, text=text, posts=posts, runs=runs))
        for name, limits, _ in runs:
            jobs.append((path, limits))
    outs = pmap(lambda jb: run_reg_f(jb[0], jb[1]), jobs)
    lines = [lib.sx(['f', 't%d' % m['j'], ['posts'] + [post_sx(p) for p in m['posts']],
                     ['runs'] + [['run', name] + [limit_sx(l) for l in limits] for name, limits, _ in m['runs']]])
             for m in metas]
    model = lib.run_model('C07', lines)
    k = 0
    for m in metas:
        rall = outs[k][1]
        want_ids = [str(p['id']) for p in m['posts']]
        for name, limits, t in m['runs']:
            st, rows = outs[k]
            mo = model[k].split(' ', 2)
            k += 1
            res.evaluations += 1
            res.traces += 1
            res.count('f:%s:%s' % (name.rstrip('0123456789'), st))
            case = dict(journal=m['text'], tagrun=name, limits=[(l[0], l[1]) for l in limits])
            mstat = 'ERR' if mo[2].startswith(('ERR', 'QERR')) else 'OK'
            mrows = [r for r in mo[2][3:].split(';') if r] if mstat == 'OK' else []
            irows = [canon_row(r) for r in rows]
            if st != mstat or (st == 'OK' and irows != mrows):
                res.disagreements.append(dict(name='C07/tag-rows', case=case, impl=[st] + irows, model=[mstat] + mrows))
            if t is None:
                if st != 'OK' or ids(rows) != want_ids:
                    res.disagreements.append(dict(name='C07/journal-rendering', case=m['text'], impl=ids(rows), model=want_ids))
                    break
                # the display must show the tags the journal writes (name: value per posting, inherited from the transaction)
                for r, p in zip(rows, m['posts']):
                    wrote = {n.lower(): v for n, v in list(p['tags']) + list(p['xtags'])}
                    if {n.lower(): v for n, v in shown_tags(r).items()} != wrote:
                        res.disagreements.append(dict(name='C07/tag-display', case=m['text'], impl=shown_tags(r), model=wrote))
                continue
            if any(sum(1 for n in shown_tags(r) if t[1].lower() in n.lower()) > 1 for r in rall):
                res.count('f:several-tag-names-match')
                res.nontrivial.add('t:%d:%s' % (m['j'], name))
            elif 0 < len(rows) < len(rall):
                res.nontrivial.add('t:%d:%s' % (m['j'], name))
            tag_violation(res, m['text'], name, limits, t, rall, st, rows)
        if m['j'] == 0:
            res.samples.append(dict(journal=m['text'][:400], tag_query=m['runs'][1][1][0][1], rows=ids(outs[k - len(m['runs']) + 1][1])))


def search(ctx, broken):
    import random
    for s in range(3):
        ctx.rng = random.Random('C07-search-%d-%d' % (ctx.seed, s))
        r = run(ctx, scale=2)
        if r.violations:
            return r.violations
    return []


def replay(ctx, obj):
    res = lib.Result()
    case = obj.get('case') or {}
    if 'argv' in case and 'journal' not in case:
        got = run_query(case['argv'], case.get('multi', True))
        print('replay: query %r -> %s (required %s)' % (case['argv'], got, obj.get('required')))
        if got == obj.get('observed'):
            res.violations.append(dict(key=obj['key'], desc=obj['desc']))
        return res
    if 'tagruns' in case:
        path = ctx.path('replay.dat')
        open(path, 'w').write(case['journal'])
        st, rall = run_reg_f(path, [])
        print('replay: all -> %s %s' % (st, [r.split('|')[0] + ':' + str(shown_tags(r)) for r in rall]))
        for name, limits, t in case['tagruns']:
            limits = [tuple(l) for l in limits]
            st, rows = run_reg_f(path, limits)
            print('replay: %s %s -> %s %s' % (name, limits, st, ids(rows)))
            tag_violation(res, case['journal'], name, limits, tuple(t), rall, st, rows)
        return res
    if 'flagruns' in case or 'flagrun' in case:
        path = ctx.path('replay.dat')
        open(path, 'w').write(case['journal'])
        st, rall = run_reg_d(path, [])
        print('replay: all -> %s %s' % (st, [r.split('|')[0] + ':' + r.split('|')[6] for r in rall]))
        bad = False
        for name, limits in case.get('flagruns', []):
            if name == 'all':
                continue
            st, rows = run_reg_d(path, [tuple(l) for l in limits])
            print('replay: %s %s -> %s %s' % (name, limits, st, [r.split('|')[0] + ':' + r.split('|')[6] for r in rows]))
            kind, _, ident = name.partition(':')
            if kind in ('is', 'not', 'q') and ident in ('virtual', 'real'):
                isv = lambda r: r.split('|')[6][:1] in '(['
                sel = {('is', 'virtual'): isv, ('q', 'virtual'): isv, ('not', 'real'): isv}.get((kind, ident), lambda r: not isv(r))
                if st != 'OK' or rows != [r for r in rall if sel(r)]:
                    bad = True
        if 'line' in case:
            for name, limits in case['flagruns']:
                if name != 'all':
                    st, rows = run_reg_d(path, [tuple(l) for l in limits])
                    bad = bad or st != 'OK' or ((case['line'] in [r.split('|')[0] for r in rows]) != case['want'])
        if bad or not case.get('flagruns'):
            print('replay: the rows differ from what the display requires')
            res.violations.append(dict(key=obj.get('key', 'flag'), desc=obj.get('desc', '')))
        return res
    if 'seq' in case:
        path = ctx.path('replay.dat')
        open(path, 'w').write(case['journal'])
        now = datetime.date.fromisoformat(case['now'])
        outs = []
        for cmd, name in zip(case['seq'], case.get('names') or ['seq']):
            i = cmd.index('reg')
            st, rows = run_seq(path, now, cmd[:i], cmd[i + 1:])
            outs.append((st, ids(rows)))
            print('replay: %-7s %s -> %s %s' % (name, ' '.join(cmd), st, ','.join(ids(rows))))
        names = case.get('names') or []
        if 'all' in names and all(o[0] == 'OK' for o in outs):
            byname = dict(zip(names, outs))
            has_b = any(x in ('-b', '--begin') for x in case['seq'][names.index('seq')])
            has_e = any(x in ('-e', '--end') for x in case['seq'][names.index('seq')])
            sets = []
            for n, cmd in zip(names, case['seq']):
                if n.startswith('alone'):
                    isp = cmd[0] in ('-p', '--period')
                    if isp and ((cmd[1].startswith(('from', 'since')) and has_b) or (cmd[1].startswith(('to', 'until')) and has_e)):
                        continue
                    sets.append(set(byname[n][1]))
            want = [i for i in byname['all'][1] if all(i in s_ for s_ in sets)]
            for n in ('seq', 'perm', 'dedup'):
                if byname[n][1] != want:
                    print('replay: %s is not the intersection %s' % (n, want))
                    res.violations.append(dict(key=obj.get('key', 'sequence'), desc=obj.get('desc', '')))
                    break
        return res
    if 'journal' in case:
        # re-run the paired reports on the stored journal and evaluate the property text again
        path = ctx.path('replay.dat')
        open(path, 'w').write(case['journal'])
        P, Q = case.get('P'), case.get('Q')
        db = datetime.date.fromisoformat(case['begin'])
        de = datetime.date.fromisoformat(case['end'])
        ds = lambda d: d.strftime('%Y/%m/%d')
        runs = [('all', []), ('P', [('e', P)]), ('notP', [('e', '!(%s)' % P)]), ('Q', [('e', Q)]),
                ('PandQ', [('e', '(%s)&(%s)' % (P, Q))]), ('PorQ', [('e', '(%s)|(%s)' % (P, Q))]),
                ('PQ2', [('e', P), ('e', Q)]), ('qry', [('qry', case['argv'])]), ('qexpr', [('e', case['E'])]),
                ('qry2', [('qry', case['argv2'])]), ('qexpr2', [('e', case['E2'])]),
                ('begin', [('begin', ds(db))]), ('end', [('end', ds(db))]),
                ('range', [('begin', ds(db)), ('end', ds(de))]), ('Pq', [('e', P), ('qry', case['argv'])])]
        got = {name: run_reg(path, limits) for name, limits in runs}
        for name, _ in runs:
            print('replay: %-6s %s %s' % (name, got[name][0], ','.join(ids(got[name][1]))))
        m = dict(text=case['journal'], posts=None, P=P, Q=Q, argv=case['argv'], E=case['E'], argv2=case['argv2'],
                 E2=case['E2'], db=db, de=de)
        oracle_b(res, m, got)
    return res
