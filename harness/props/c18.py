"""C18 - machine-readable outputs (xml, csv, emacs) are well-formed and faithful.
Correspondence: journals whose payees, account names, codes, notes and commodity symbols draw from
printable ASCII punctuation and letters of several scripts (at the start, at the end, doubled) are
reported by `csv` (default format and a generated --csv-format), `emacs` and `xml`; the extracted Coq
model (Model/Escape.v: the escaping functions, the csv row assembly from the regenerated default
format, the emacs writer, boost's property-tree XML writer and ledger's put_* functions) predicts the
output byte for byte.  The reader specifications of the model (RFC 4180 csv, backslash csv, Emacs
Lisp, XML character data) are cross-checked against python's csv / xml.etree and a small
S-expression reader on ledger's real output.
Oracle: written from the property text - xml.etree parses the document and yields the register's
dates/codes/payees/notes/accounts/commodities/quantities; a conventional csv reader (RFC dialect or
backslash dialect) recovers the register's fields from every row; the emacs output is one balanced
S-expression whose strings are the register's.  Payee overrides are part of the input space:
`; Payee: X` on a posting (on its line or the next), directly under the transaction header (inherited
by every posting), or both; per posting, the payee a reader recovers (xml: the posting's <payee> if
present, else the transaction's; csv: the payee column; emacs: the transaction's payee field) must be
the register's %(payee); likewise the inherited value of a `Ref:` tag in the xml metadata.
Dates of every written form are part of it as well: `DATE=AUX` in the header, `; [DATE]`, `; [=AUX]`,
`; [DATE=AUX]` on a posting (or on a transaction note, replacing the header's), from 1901 to 9999,
each journal reported with or without --aux-date; per posting, the date a reader recovers (xml:
the posting's <date> if present else the transaction's, and <aux-date> likewise, compared with the
register run without and with --aux-date; csv: the date column; emacs: the transaction's time value)
must be the register's %(date) for the same query.
The note column of the csv output is judged against the note text of the journal itself (the
register's plain %(note); a line break written as the two characters \\n), never against ledger's
own join().  One journal in four comes from a second stream whose fields (and commodity symbols) also
hold control bytes, non-letter code points or bytes outside UTF-8: outside the property's quantifier,
compared with the model only.  Options that act after the calculation are part of the command space:
--display PREDICATE (all commands; the xml report must list the displayed postings only) and
--group-by payee (emacs: still one balanced, readable output)."""
import csv, io, os, re
import xml.etree.ElementTree as ET
from fractions import Fraction as F
import lib

META = dict(
    id='C18',
    level='proof',
    technique='Coq proof (decode . encode = id for the emacs, csv and xml escaping functions against reader specifications; token/parenthesis structure of the emacs writer; element structure of the xml writer) + differential correspondence of the extracted writers against ledger + python csv/xml.etree/S-expression oracles',
    level_text='Theorems in coq/Properties/Properties_C18.v state for ALL byte strings that the Emacs-Lisp reader recovers every string escape_string writes, that the whole emacs output lexes to the expected balanced token list and reads back as the tree (file line (hi lo 0) code payee (line account amount state [cost] [note])...); that XML character-data decoding inverts boost\'s entity encoding, the encoded text has no raw < and no & outside the six references, and a tag scanner finds in what the modelled property-tree writer prints exactly the elements of the tree, properly nested (for the transactions, accounts and commodities sections ledger builds, whatever the journal texts are); that an RFC 4180 reader recovers every row written with quoted_rfc; that the DEFAULT csv format (regenerated from report.h on every run) is recovered by the backslash-escape reader for ALL field contents (quoted() escapes both the double quote and the backslash), and by the RFC 4180 reader when no field holds a double quote or a backslash (the RFC reader is refuted by witnesses for each of the two characters - a statement about that reader; the property asks for one conventional reader). Payee overrides (`; Payee: X` tags) are modelled as the code resolves them (post_t::payee(): the stored payee, else the inherited tag, else the header); how the payee is stored is a fact regenerated from textual.cc on every run (Gen/PayeeRule.v: fixed when the posting line is read, or also updated by a Payee tag on a later note line), which selects the model rule and the statement of xml_payee_faithful: with the later-line update the payee an xml reader recovers (posting <payee> else transaction <payee>) is proved equal to the register payee for every posting whose later Payee tags carry a value; with the payee fixed at the posting line that holds only without later-line tags or without a stored payee and is refuted by a witness (finding F116). Dates are modelled as post_t::date() resolves them (the own date or auxiliary date of the posting, else that of the transaction, under either --aux-date setting): the xml tree is proved to carry _date under <date> and _date_aux under <aux-date> for transactions and postings (xml_date_elements), the dates a reader recovers from them are proved to be those of the register without and with --aux-date (xml_dates_faithful), the csv date cell is post_t::date(), and the emacs time value, one per transaction, equals it only for postings without dates of their own (refuted by witness, finding F150). The note cell of the csv row goes through join(): the chain of tests of report_t::fn_join on its plain `char` loop variable is regenerated from report.cc on every run (Gen/JoinRule.v) and evaluated by the model on the SIGNED value of the byte; join_keeps_bytes proves for all byte strings that every byte other than the line feed - bytes >= 0x80 and control bytes included - is copied, join_one_line that the result holds no line feed, join_unjoin that a reader of the two characters backslash n recovers a note of several lines without backslash, csv_note_cell_faithful that the note cell of the default row is the posting\'s note followed by the transaction\'s whenever that is one line. The csv payee cell is proved to be post_t::payee(); the emacs payee, one per transaction, equals it only when no tag is present (refuted by witness, finding F115). The model is tied to the code by comparing, byte for byte, ledger\'s csv (default and generated formats), emacs and xml (transactions, account tree, commodities) output with the extracted model on generated journals, and its reader specifications are cross-checked against python csv, expat and an S-expression reader on ledger\'s real output.',
    level_note='Trusted: Coq kernel; extraction + OCaml driver and this harness for the correspondence. boost::property_tree\'s XML writer and entity encoder are modelled (Model/Escape.v write_el, xml_encode) and validated by the correspondence, not verified. Amount texts (quantity, commodity, annotated amount) are taken from the register report, as the property text does. The running <total>, <account-amount>, <account-total> subtrees and the id/ref addresses of the xml output are not compared.',
    design_ref='DESIGN.md section 7 C18, section 9 F10 (repaired by /repo 3212d62)',
    assumptions=['the reports run without --effective/--date overrides other than --aux-date; dates lie between 1901/01/01 and 9999/12/31 (boost gregorian) in %Y/%m/%d form', 'free-text fields survive journal parsing unchanged (see EXCLUSIONS in harness/props/c18.py): no tab/newline inside a field, no double space, a payee does not start with `(` unless a code precedes it nor with `*`/`!` on an uncleared transaction, a code has no `)`, an account name is not wrapped in ()/[]/<>, has no empty `:` component and does not start with `;` `*` `!`, a free-text note has no token starting or ending with `:` and no `[` before a digit or `=` (date override); metadata is generated in dedicated note lines (`Key: value`, `:tag:tag:`, `Payee: X`) with string values only (no `Key:: expr`), and no bare `:Payee:` tag',
                 'quoted commodity symbols contain no double quote and no backslash (commodity scanner escapes)',
                 'control bytes, non-letter code points (C1 controls, no-break space, line separator, BOM ...) and bytes outside UTF-8 lie outside the property\'s quantifier: a second generator stream puts them into every field and into commodity symbols and compares ledger with the model byte for byte, without an oracle verdict (boost writes them raw, which is not well-formed XML 1.0); NUL, tab, newline, VT, FF, CR are never inside a field (the line reader ends or trims there)',
                 'report options: --aux-date, an account query, --display PREDICATE (every command), --group-by payee (emacs; the writer across groups is judged by the oracle only, finding F1802)'],
)

EXCLUSIONS = {
    'all': 'tab and newline never occur inside a field (line-oriented journal syntax); no leading/trailing/double spaces (the line reader trims, two spaces end an account and start a note)',
    'payee': 'first character not `(` unless a code was written (textual.cc:1886 takes it for a code, a lone `(` loses the payee); not `*`/`!` when the transaction has no state flag (textual.cc:1871 reads it as the flag)',
    'code': 'no `)` (the code ends at the first one)',
    'account': 'first character not `;` (comment), `*`, `!` (state flag); not `(..)`, `[..]`, `<..>` as a whole (virtual / deferred posting syntax); no empty component (`::`, leading or trailing `:`)',
    'note': 'free-text notes: no whitespace-separated token that starts or ends with `:` (item.cc:188-219 turns it into tags / metadata; those are generated separately, as whole lines; `key:: expr` is evaluated and not generated); no `[` directly before a digit or `=` (item.cc:157-176 reads a date)',
    'commodity': 'quoted symbols without `"` and `\\`',
}

PUNCT = list('"\\<>&,;\'()[]{}:=*!#%@|~^$+-./?_`')
SPECIAL = list('"\\<>&,;\'')
ASCII_WORDS = ['a', 'b', 'Q', 'xy', 'Shop', 'Food', 'rent', 'Cash', 'Z9', 'n']
SCRIPTS = ['é', 'ü', 'ß', 'ç', 'ñ', 'Ω', 'λ', 'Д', 'ж', 'я', '日', '本', '語', 'א', 'ש', 'ع', 'ب', '한', '글', 'क', 'ก', '𝒜', '€', '£']
STATE_PREFIX = {0: '', 1: '* ', 2: '! '}
# the second stream (beyond the property's quantifier, correspondence only): every byte value a field can hold
# C0 control bytes and DEL (not NUL, which ends the line; not \t \n \v \f \r, which the line reader
# treats as white space; not \x1e \x1f, which separate the register fields of this harness)
CTL = [chr(c) for c in list(range(1, 9)) + list(range(14, 30)) + [127]]
# valid UTF-8 that is not a letter: C1 controls, no-break space, soft hyphen, zero-width space, line
# separator, BOM, the replacement character, the last code point
NONLETTER = ['\x80', '\x85', '\x9f', '\xa0', '\xad', '\u200b', '\u2028', '\ufeff', '\ufffd', '\U0010ffff']
# lone bytes >= 0x80 that are NOT valid UTF-8 (continuation bytes, lead bytes without continuation,
# a latin-1 letter, 0xfe/0xff), written into python strings as surrogate escapes
RAW = [chr(0xdc00 + b) for b in (0x80, 0x8f, 0xa0, 0xbf, 0xc0, 0xc3, 0xe9, 0xf8, 0xfe, 0xff)]
TEXT_MODE = ['letters']        # 'letters' | 'ctl' (CTL + NONLETTER) | 'raw' (CTL + RAW)


def byte_pool():
    return CTL + (NONLETTER if TEXT_MODE[0] == 'ctl' else RAW)


def in_quantifier(t):
    """printable characters only (the property's quantifier): no control character, no format or
    separator character other than the blank, no byte outside UTF-8"""
    return all(c == ' ' or c.isprintable() for c in t)


def u8(t):
    return t.encode('utf-8', 'surrogateescape')
SEP = '\x1f'
ROWEND = '\x1e'

# commodities: (symbol as written, prefix?, separated?, xml flags)
COMMS = [
    ('$', True, False, 'P'),
    ('EUR', False, True, 'S'),
    ('€', True, False, 'P'),
    ('£', False, False, ''),
    ('AAA', False, True, 'S'),
    ('"a<&>\'b"', False, True, 'S'),
    ('"x;y,z"', True, True, 'PS'),
    ('"é ü"', False, True, 'S'),
    ('"<"', True, False, 'P'),
    (None, False, False, ''),
]
# quoted symbols of the second stream: control bytes / non-letters, and bytes outside UTF-8
COMMS_CTL = [('"\x01é\x7f"', False, True, 'S'), ('"\x85 \x1b"', True, True, 'PS')]
COMMS_RAW = [('\udcff\x02', True, False, 'P'), ('z\udce9\udc80', False, True, 'S')]       # (ledger prints these without quotes)


# ------------------------------------------------------------------------------ field texts
def word(rng):
    if TEXT_MODE[0] != 'letters' and rng.random() < 0.3:
        b = rng.choice(byte_pool())
        w = rng.choice(ASCII_WORDS + SCRIPTS[:6])
        return rng.choice([b + w, w + b, w + b + b + w, b, w[:1] + b + w[1:]])
    r = rng.random()
    if r < 0.45:
        return rng.choice(ASCII_WORDS)
    if r < 0.85:
        return ''.join(rng.choice(SCRIPTS) for _ in range(rng.choice([1, 1, 2, 3])))
    return rng.choice(ASCII_WORDS) + rng.choice(SCRIPTS)


def gen_text(rng):
    """a field text: a special character at the start / at the end / doubled / alone / inside a
    word, or a random mixture"""
    c = rng.choice(SPECIAL) if rng.random() < 0.75 else rng.choice(PUNCT)
    if TEXT_MODE[0] != 'letters' and rng.random() < 0.55:
        c = rng.choice(byte_pool())
    w, w2 = word(rng), word(rng)
    k = rng.randrange(12)
    if k == 0:
        return c + w
    if k == 1:
        return w + c
    if k == 2:
        return w + c + c + w2
    if k == 3:
        return c
    if k == 4:
        return c + c
    if k == 5:
        return w + c + w2
    if k == 6:
        return c + w + c
    if k == 7:
        return w + ' ' + c + ' ' + w2
    if k == 8:
        return w
    if k == 9:
        d = rng.choice(SPECIAL)
        return w + c + d + w2 + d + c
    atoms = []
    for _ in range(rng.choice([2, 3, 4, 6, 9])):
        r = rng.random()
        atoms.append(rng.choice(PUNCT) if r < 0.5 else word(rng) if r < 0.9 else ' ')
    return ''.join(atoms)


def basic_ok(t):
    return t != '' and t == t.strip(' ') and '  ' not in t and '\t' not in t and '\n' not in t


def payee_ok(t, has_code, xstate):
    if not basic_ok(t):
        return False
    if t[0] == '(' and not has_code:
        return False
    if t[0] in '*!' and xstate == 0:
        return False
    if t[0] == ';' and not has_code and xstate == 0:
        return True
    return True


def code_ok(t):
    return ')' not in t and '\t' not in t and '\n' not in t and '  ' not in t and t == t.strip(' ')


def account_ok(t):
    if not basic_ok(t):
        return False
    if t[0] in ';*!':
        return False
    if (t[0], t[-1]) in (('(', ')'), ('[', ']'), ('<', '>')):
        return False
    if t.startswith(':') or t.endswith(':') or '::' in t:
        return False
    if any(len(u8(c)) > 200 for c in t.split(':')):
        return False
    return True


def note_ok(t):
    if t == '' or '\t' in t or '\n' in t or t != t.rstrip(' ') or '  ' in t:
        return False
    for tok in t.split(' '):
        if tok and (tok[0] == ':' or tok[-1] == ':'):
            return False
    if re.search(r'\[[0-9=]', t):
        return False
    return True


PAYEE_KEYS = ['Payee', 'Payee', 'Payee', 'payee', 'PAYEE']
OTHER_KEYS = ['Ref', 'zeta', 'Alpha', 'K"<&\'', 'é-key', 'a:b', 'ref', '_k', '^Z']
TAG_NAMES = ['tA', 'tB', 'x<&>"', 'ü', 'Zed', "q'", '_u', '`t', 'ta']


def value_ok(t):
    return basic_ok(t)


def gen_meta_line(rng, kind):
    """one note line that item_t::parse_tags turns into metadata -> (text after `;`, entries);
    an entry is (key, value or None for a bare tag), in the order parse_tags sets them"""
    lead = ' ' if rng.random() < 0.8 else ''
    if kind == 'payee':
        v = gen_field(rng, value_ok)
        k = rng.choice(PAYEE_KEYS)
        return lead + k + ': ' + v, [(k, v)]
    if kind == 'key':
        k = rng.choice(OTHER_KEYS)
        if rng.random() < 0.12:
            return lead + k + ':', [(k, None)]            # no value: stored like a bare tag
        v = gen_field(rng, value_ok)
        return lead + k + ': ' + v, [(k, v)]
    names = rng.sample(TAG_NAMES, rng.choice([1, 2, 3]))
    pre = (word(rng) + ' ') if rng.random() < 0.3 else ''
    return lead + pre + ':' + ':'.join(names) + ':', [(n, None) for n in names]


# far past, around the epoch, the 32-bit time_t limit, a far-future leap day, the last day boost knows
DAY_POOL = [-25202, -25201, -1, 0, 1, 59, 24855, 24856, 157112, 376199, 2932896]


def pick_day(rng, near):
    r = rng.random()
    if r < 0.5:
        return max(-25202, min(2932896, near + rng.choice([-400, -31, -1, 0, 1, 2, 28, 366])))
    return rng.choice(DAY_POOL)


def fmt_day(days):
    return '%04d/%02d/%02d' % civil(days)


def gen_date_note(rng, near):
    """a note line item_t::parse_tags reads a date from: `[DATE]`, `[=AUX]` or `[DATE=AUX]`, alone or
    between words; the line must not contain `:` (parse_tags then looks for tags instead)
    -> (text, own_date, own_aux)"""
    form = rng.choice(['d', 'a', 'da'])
    d = pick_day(rng, near) if 'd' in form else None
    a = pick_day(rng, near) if 'a' in form else None
    inner = (fmt_day(d) if d is not None else '') + ('=' + fmt_day(a) if a is not None else '')
    pre = (word(rng) + ' ') if rng.random() < 0.3 else ''
    post = (' ' + word(rng)) if rng.random() < 0.3 else ''
    return (' ' if rng.random() < 0.8 else '') + pre + '[' + inner + ']' + post, d, a


def gen_notes(rng, item, p_note, p_second, payee_tag=False, dup_payee=False, date_note=False, near=0):
    """note lines of a transaction or posting: item.notes (texts), item.metas (entries per line),
    item.inline_note (first line written on the item's own line)"""
    lines = []
    if rng.random() < p_note:
        lines.append(((' ' if rng.random() < 0.7 else '') + gen_field(rng, note_ok), []))
        if rng.random() < p_second:
            lines.append((' ' + gen_field(rng, note_ok), []))
    if rng.random() < 0.15:
        lines.append(gen_meta_line(rng, 'key'))
    if rng.random() < 0.12:
        lines.append(gen_meta_line(rng, 'tags'))
    if payee_tag:
        lines.append(gen_meta_line(rng, 'payee'))
        if dup_payee:
            lines.append(gen_meta_line(rng, 'payee'))
    item.own_date = item.own_aux = None
    if date_note:
        t, item.own_date, item.own_aux = gen_date_note(rng, near)
        lines.append((t, []))
    rng.shuffle(lines)
    item.notes = [t for t, _ in lines]
    item.metas = [m for _, m in lines]
    item.inline_note = bool(lines) and rng.random() < 0.6


def meta_entries(item, which):
    """entries for the model: which = 'all' | 'inline' | 'later'; overwrite_existing is false only
    for the note on a transaction's header line (textual.cc:1930 vs 1956, 1802)"""
    out = []
    for i, ents in enumerate(item.metas):
        inline = item.inline_note and i == 0
        if which == 'inline' and not inline:
            continue
        if which == 'later' and inline:
            continue
        ow = not (inline and isinstance(item, Xact))
        for k, v in ents:
            out.append([ow, hexs(k), opt(v)])
    return out


def has_payee(item, which):
    return any(k.lower() == 'payee' and v for i, ents in enumerate(item.metas) for k, v in ents
               if which == 'all' or ((item.inline_note and i == 0) == (which == 'inline')))


def gen_field(rng, ok, tries=50):
    for _ in range(tries):
        t = gen_text(rng)
        if ok(t):
            return t
    return 'w'


# ------------------------------------------------------------------------------ journals
class Post:
    pass


class Xact:
    pass


def fmt_amount(comm, cents, decimals):
    sym, prefix, sep, _ = comm
    neg = cents < 0
    a = abs(cents)
    if decimals:
        num = '%d.%0*d' % (a // 10 ** decimals, decimals, a % 10 ** decimals)
    else:
        num = '%d' % a
    if neg:
        num = '-' + num
    if sym is None:
        return num
    if prefix:
        return sym + (' ' if sep else '') + num
    return num + (' ' if sep else '') + sym


def gen_journal(rng, idx, mode='letters'):
    """-> list of Xact (abstract), the query word or None"""
    TEXT_MODE[0] = mode
    try:
        return gen_journal_1(rng, idx, mode)
    finally:
        TEXT_MODE[0] = 'letters'


def gen_journal_1(rng, idx, mode):
    comms = rng.sample(COMMS, rng.choice([1, 2, 2, 3]))
    if mode != 'letters' and rng.random() < 0.4:
        comms[rng.randrange(len(comms))] = rng.choice(COMMS_CTL if mode == 'ctl' else COMMS_RAW)
    decs = {c[0]: rng.choice([0, 2, 2, 3]) for c in comms}
    r = rng.random()
    qword = 'Zq' if r < 0.25 else 'Nomatch' if r < 0.28 else None      # Nomatch: an empty report
    if mode == 'raw':
        qword = None       # an account mask is matched as UTF-8: an account name with other bytes is an error
    acct_pool = []
    for _ in range(rng.choice([2, 3, 4])):
        a = gen_field(rng, account_ok)
        if rng.random() < 0.5:
            a = rng.choice(['Assets', 'Expenses', 'É']) + ':' + a
            if not account_ok(a):
                a = 'Assets:w'
        if qword == 'Zq' and rng.random() < 0.6:
            a = a + qword if rng.random() < 0.5 else qword + ':' + a
            if not account_ok(a):
                a = qword
        acct_pool.append(a)
    xs = []
    day = rng.choice([-25202, -2500, -400, -1, 0, 3000, 18262, 18262, 18262, 19000, 24855, 30000, 157112, 376000, 2932800])   # days from 1970-01-01 (the last one: 9999/10/12)
    # rarely a journal without any transaction (only a comment): every report is then empty
    for xi in range(0 if rng.random() < 0.02 else rng.choice([1, 1, 2, 3, 4])):
        x = Xact()
        day += rng.choice([0, 1, 5, 16])
        x.days = day
        # DATE=AUX in the header
        x.aux_days = pick_day(rng, day) if rng.random() < 0.3 else None
        x.state = rng.choice([0, 0, 1, 2])
        r = rng.random()
        # a code may be empty or blank: `()` prints <code/>, `( )` takes boost's only-spaces branch (&#32;)
        x.code = None if r < 0.45 else ('' if r < 0.50 else rng.choice([' ', '  ', '   ']) if r < 0.54 else gen_field(rng, code_ok))
        x.payee = gen_field(rng, lambda t: payee_ok(t, x.code is not None, x.state))
        xact_payee_tag = rng.random() < 0.22
        gen_notes(rng, x, 0.5, 0.25, payee_tag=xact_payee_tag, dup_payee=xact_payee_tag and rng.random() < 0.25,
                  date_note=rng.random() < 0.08, near=day)
        comm = rng.choice(comms)
        dec = decs[comm[0]]
        n = rng.choice([2, 2, 3])
        while True:     # no zero amounts: the register hides them
            amounts = [rng.choice([1, 5, 1050, 99, 123456, 7]) * rng.choice([1, 1, -1]) for _ in range(n - 1)]
            amounts.append(-sum(amounts))
            if amounts[-1] != 0:
                break
        x.posts = []
        cost_shape = len(comms) > 1 and rng.random() < 0.2
        for pi in range(n):
            p = Post()
            p.account = rng.choice(acct_pool) if rng.random() < 0.8 else gen_field(rng, account_ok)
            p.state = rng.choice([0, 0, 0, 1, 2])
            p.virtual = 2 if rng.random() < 0.1 else 0
            p.comm, p.cents, p.dec = comm, amounts[pi], dec
            p.cost = None
            # a posting-level Payee tag: more often when the transaction has one too, so that the
            # inline / next-line / inherited combinations all occur
            gen_notes(rng, p, 0.35, 0.3, payee_tag=rng.random() < (0.45 if xact_payee_tag else 0.15),
                      date_note=rng.random() < 0.3, near=day)
            x.posts.append(p)
        others = [c for c in comms if c is not comm and c[0] is not None]
        if cost_shape and others:
            # two postings: K units of another commodity at a unit price, against the total
            # (an amount without commodity cannot carry the price annotation)
            other = rng.choice(others)
            k = rng.choice([1, 2, 3, 7])
            unit = rng.choice([100, 250, 1999]) if dec else rng.choice([1, 3, 20])
            a, b = x.posts[0], x.posts[1]
            x.posts = [a, b]
            a.comm, a.cents, a.dec = other, k * 10 ** decs[other[0]], decs[other[0]]
            a.cost = (comm, unit, dec)
            b.comm, b.cents, b.dec = comm, -k * unit, dec
        if rng.random() < 0.12:
            p = Post()
            p.account = gen_field(rng, account_ok)
            p.state, p.virtual = 0, 1
            p.comm, p.cents, p.dec, p.cost = comm, rng.choice([100, 3, -42]), dec, None
            p.notes, p.metas, p.inline_note = [], [], False
            p.own_date = p.own_aux = None
            x.posts.append(p)
        xs.append(x)
    return xs, qword


def civil(days):
    z = days + 719468
    era = z // 146097
    doe = z - era * 146097
    yoe = (doe - doe // 1460 + doe // 36524 - doe // 146096) // 365
    y = yoe + era * 400
    doy = doe - (365 * yoe + yoe // 4 - yoe // 100)
    mp = (5 * doy + 2) // 153
    d = doy - (153 * mp + 2) // 5 + 1
    m = mp + 3 if mp < 10 else mp - 9
    return (y + 1 if m <= 2 else y), m, d


def render(xs):
    """journal text; sets x.line / p.line (1-based)"""
    lines = []
    for x in xs:
        # xact._date / _date_aux: the header's, replaced by a `[..]` of a transaction note
        x.eff_days = x.own_date if x.own_date is not None else x.days
        x.eff_aux = x.own_aux if x.own_aux is not None else x.aux_days
        x.ymd = civil(x.eff_days)
        head = fmt_day(x.days) + ('=' + fmt_day(x.aux_days) if x.aux_days is not None else '') + ' ' + STATE_PREFIX[x.state]
        if x.code is not None:
            head += '(' + x.code + ') '
        head += x.payee
        rest = list(x.notes)
        if x.inline_note:
            head += '  ;' + rest.pop(0)
        x.line = len(lines) + 1
        lines.append(head)
        for nl in rest:
            lines.append('    ;' + nl)
        for p in x.posts:
            acct = p.account
            if p.virtual == 1:
                acct = '(' + acct + ')'
            elif p.virtual == 2:
                acct = '[' + acct + ']'
            l = '    ' + STATE_PREFIX[p.state] + acct + '    ' + fmt_amount(p.comm, p.cents, p.dec)
            if p.cost:
                l += ' @ ' + fmt_amount(p.cost[0], p.cost[1], p.cost[2])
            rest = list(p.notes)
            if p.inline_note:
                l += '  ;' + rest.pop(0)
            p.line = len(lines) + 1
            lines.append(l)
            for nl in rest:
                lines.append('    ;' + nl)
        lines.append('')
    if not xs:
        return '; no transactions\n'
    return '\n'.join(lines) + '\n'


REG_FIELDS = ['date', 'code', 'payee', 'xact.payee', 'account', 'display_account', 'note',
              'commodity(scrub(display_amount))', 'quantity(scrub(display_amount))', 'amount',
              'has_cost', 'cost', 'commodity(cost)', 'quantity(cost)',
              'cleared ? "*" : (pending ? "!" : "")', 'virtual', 'join(note | xact.note)', 'tag("ref")']
REG_FORMAT = SEP.join('%%(%s)' % f for f in REG_FIELDS) + ROWEND + '\\n'

CSV_EXPR = {'date': 'date', 'code': 'code', 'payee': 'payee', 'account': 'display_account',
            'commodity': 'commodity(scrub(display_amount))', 'quantity': 'quantity(scrub(display_amount))',
            'state': 'cleared ? "*" : (pending ? "!" : "")', 'note': 'join(note | xact.note)'}
CSV_ORDER = ['date', 'code', 'payee', 'account', 'commodity', 'quantity', 'state', 'note']
QFUN = {'default': 'quoted', 'rfc': 'quoted_rfc'}


def csv_format_string(fmt):
    cells = []
    for q, f in fmt:
        e = CSV_EXPR[f]
        cells.append('%%(%s)' % e if q == 'bare' else '%%(%s(%s))' % (QFUN[q], e))
    return ','.join(cells) + '\\n'


def parse_register(out):
    rows = []
    text = out.decode('utf-8', 'surrogateescape')
    for chunk in text.split(ROWEND + '\n'):
        if chunk == '':
            continue
        parts = chunk.split(SEP)
        if len(parts) != len(REG_FIELDS):
            return None
        rows.append(dict(zip(REG_FIELDS, parts)))
    return rows


# ------------------------------------------------------------------------------ canonical xml
def xml_section(text, tag):
    m = re.search(r'^  <%s>\n.*?^  </%s>\n|^  <%s/>\n' % (tag, tag, tag), text, re.S | re.M)
    return m.group(0) if m else None


def strip_blocks(text, tags):
    for t in tags:
        text = re.sub(r'^ *<%s>\n.*?^ *</%s>\n' % (t, t), '', text, flags=re.S | re.M)
    return text


def canon_xml(doc):
    """-> (transactions, accounts, commodities) sections with addresses and computed totals removed"""
    t = xml_section(doc, 'transactions')
    a = xml_section(doc, 'accounts')
    c = xml_section(doc, 'commodities')
    if t is not None:
        t = strip_blocks(t, ['total'])
        t = re.sub(r'<account ref="[0-9a-f]+">', '<account ref="@">', t)
    if a is not None:
        a = strip_blocks(a, ['account-amount', 'account-total'])
        a = re.sub(r'<account id="[0-9a-f]+">', '<account id="@">', a)
    return t, a, c


# ------------------------------------------------------------------------------ python readers (oracle)
class Unreadable(Exception):
    pass


def sexp_read(text):
    """Emacs-Lisp reader for the subset the property speaks of: lists, strings with \\\\ and \\",
    bare atoms.  -> list of top-level forms"""
    pos = 0
    n = len(text)

    def skip():
        nonlocal pos
        while pos < n and text[pos] in ' \n\t\r':
            pos += 1

    def form():
        nonlocal pos
        skip()
        if pos >= n:
            raise Unreadable('unexpected end')
        ch = text[pos]
        if ch == '(':
            pos += 1
            items = []
            while True:
                skip()
                if pos >= n:
                    raise Unreadable('unclosed list')
                if text[pos] == ')':
                    pos += 1
                    return items
                items.append(form())
        if ch == ')':
            raise Unreadable('unbalanced )')
        if ch == '"':
            pos += 1
            buf = []
            while True:
                if pos >= n:
                    raise Unreadable('unterminated string')
                c = text[pos]
                if c == '"':
                    pos += 1
                    return ('s', ''.join(buf))
                if c == '\\':
                    if pos + 1 >= n:
                        raise Unreadable('unterminated string')
                    e = text[pos + 1]
                    if e not in '\\"':
                        raise Unreadable('escape \\%s changes or drops a character in Emacs' % e)
                    buf.append(e)
                    pos += 2
                else:
                    buf.append(c)
                    pos += 1
        st = pos
        while pos < n and text[pos] not in ' \n\t\r()"':
            pos += 1
        return ('a', text[st:pos])

    forms = []
    while True:
        skip()
        if pos >= n:
            return forms
        forms.append(form())


def show_sexp(f):
    if isinstance(f, list):
        return '(' + ' '.join(show_sexp(i) for i in f) + ')'
    return '%s:%s' % (f[0], f[1].encode('latin-1').hex() or '-')


def csv_rows(text, dialect):
    """text: latin-1 decoded bytes.  -> rows or None when the reader rejects the document"""
    kw = dict(strict=True, lineterminator='\n')
    if dialect == 'bs':
        kw.update(doublequote=False, escapechar='\\')
    try:
        return [r for r in csv.reader(io.StringIO(text, newline=''), **kw)]
    except csv.Error:
        return None


def xml_events(data):
    """the element structure expat sees, in the notation of the driver (an element without content
    is `e:`; ledger never writes <a></a>)"""
    import xml.parsers.expat
    ev = []
    p = xml.parsers.expat.ParserCreate()
    last_start = [None]

    def start(name, attrs):
        ev.append(['o', name])
        last_start[0] = len(ev) - 1

    def end(name):
        if last_start[0] == len(ev) - 1 and ev[-1][0] == 'o':
            ev[-1][0] = 'e'
        else:
            ev.append(['c', name])
        last_start[0] = None

    def chars(text):
        last_start[0] = None

    p.StartElementHandler, p.EndElementHandler, p.CharacterDataHandler = start, end, chars
    try:
        p.Parse(data, True)
    except xml.parsers.expat.ExpatError:
        return 'none'
    return 'nested ' + ' '.join('%s:%s' % (k, n.encode().hex() or '-') for k, n in ev)


def show_rows(rows):
    if rows is None:
        return 'none'
    return 'rows ' + ';'.join(','.join(c.encode('latin-1').hex() or '-' for c in r) for r in rows)


# ------------------------------------------------------------------------------ model case
def hexs(s):
    return s.encode('utf-8', 'surrogateescape')


def opt(s):
    return [] if s is None else [hexs(s)]


def amt_sx(text, flags, sym, qty):
    return [hexs(text), hexs(flags), opt(sym if sym != '' else None), hexs(qty)]


def qty_string(cents, dec):
    """amount_t::quantity_string: the number without commodity prints without trailing zeros"""
    neg = cents < 0
    a = abs(cents)
    s = '%d' % (a // 10 ** dec)
    frac = ('%0*d' % (dec, a % 10 ** dec)).rstrip('0') if dec else ''
    if frac:
        s += '.' + frac
    return ('-' if neg else '') + s


FLAGS = {(c[0] or ''): c[3] for c in COMMS + COMMS_CTL + COMMS_RAW}
FLAGS[''] = 'P'      # the null commodity is not COMMODITY_STYLE_SUFFIXED


def flags_of(symbol):
    return FLAGS.get(symbol, '?')


def ymd_opt(days):
    return [] if days is None else [list(civil(days))]


def build_case(jid, path, fmt, xs, shown, rows, aux=False, all_visited=False):
    """the S-expression handed to the model.  Free-text fields come from the generator, amount
    texts from the register rows (`rows`, one per shown posting)."""
    it = iter(rows)
    xacts = []
    accts, comms = [], []
    for x, posts in shown:
        ps = []
        for p in posts:
            r = next(it)
            sym = r['commodity(scrub(display_amount))']
            amount = amt_sx(r['amount'], flags_of(sym), sym, r['quantity(scrub(display_amount))'])
            cost = []
            if r['has_cost'] == 'true':
                csym = r['commodity(cost)']
                cost = [amt_sx(r['cost'], flags_of(csym), csym, r['quantity(cost)'])]
            note = '\n'.join(p.notes) if p.notes else None
            ps.append([p.line, p.virtual, p.state, hexs(p.account), amount, cost, opt(note),
                       ymd_opt(p.own_date), ymd_opt(p.own_aux), meta_entries(p, 'inline'), meta_entries(p, 'later')])
            annot = []
            if p.cost:
                # the unit price and the transaction's (primary) date annotate the commodity of a costed amount:
                # xact_base_t::finalize runs while the journal is read, before --aux-date takes effect
                pc = p.cost[0][0] or ''
                annot = [amt_sx('', flags_of(pc), pc, qty_string(p.cost[1], p.cost[2])), hexs(fmt_day(x.eff_days))]
            comms.append([hexs(flags_of(sym)), hexs(sym), annot])
        xnote = '\n'.join(x.notes) if x.notes else None
        y, m, d = x.ymd
        xacts.append([x.line, y, m, d, ymd_opt(x.eff_aux), x.state, opt(x.code), hexs(x.payee), opt(xnote), meta_entries(x, 'all'), ps])
    visited = {p.account for _, posts in shown for p in posts}
    if all_visited:       # --display filters after calc_posts: every posting (and account) of the journal was visited
        visited = {p.account for x in xs for p in x.posts}
    for x in xs:
        for p in x.posts:
            accts.append([p.account in visited, hexs(p.account)])
    return lib.sx(['journal', jid, hexs(path), aux, [[q, f] for q, f in fmt], xacts, accts, comms])


def gen_format(rng):
    r = rng.random()
    if r < 0.5:
        return [('rfc', f) for f in CSV_ORDER], 'all-rfc'
    fields = rng.sample(CSV_ORDER, rng.randrange(1, len(CSV_ORDER) + 1))
    return [(rng.choice(['default', 'rfc', 'rfc', 'bare']), f) for f in fields], 'mixed'


# ------------------------------------------------------------------------------ the run
def eff_state(x, p):
    return x.state if p.state == 0 else p.state


def text_of(b):
    return b.decode('utf-8', 'surrogateescape')


def make_journal(ctx, rng, idx, jdir):
    """generate one journal and write it; the commands run later (in parallel); three in four draw
    their texts from printable punctuation and letters, one in eight also from control bytes and
    non-letter code points, one in eight from control bytes and bytes outside UTF-8"""
    mode = {6: 'ctl', 7: 'raw'}.get(idx % 8, 'letters')
    xs, qword = gen_journal(rng, idx, mode)
    fname = 'j%d.dat' % idx if rng.random() < 0.7 else rng.choice(['q"%d.dat', 'b\\%d.dat', 'é<&%d.dat']) % idx
    fmt, fkind = gen_format(rng)
    aux = rng.random() < 0.4
    # report options that filter or regroup AFTER the postings were calculated (same options for
    # every command of the journal): --display PREDICATE in place of the account query; --group-by payee
    r = rng.random()
    opt = 'display' if (qword == 'Zq' and r < 0.3) else 'group' if r > 0.93 else None
    return make_record(xs, qword, fmt, fkind, 'j%d' % idx, os.path.join(jdir, fname), aux, opt)


def make_record(xs, qword, fmt, fkind, jid, path, aux=False, opt=None):
    jtext = render(xs)
    with open(path, 'wb') as f:
        f.write(u8(jtext))
    query = [qword] if qword else []
    if opt == 'display':
        query = ['--display', 'account =~ /%s/' % qword]
    if qword:
        shown = [(x, [p for p in x.posts if qword.lower() in p.account.lower()]) for x in xs]
        shown = [(x, ps) for x, ps in shown if ps]
    else:
        shown = [(x, list(x.posts)) for x in xs]
    return dict(id=jid, journal=jtext, path=path, query=query, qword=qword, fmt=fmt, fkind=fkind, xs=xs,
                shown=shown, outs=None, aux=aux, opt=opt)


def shrink(rec, key):
    """drop transactions (then postings' notes) while the oracle still reports `key`; -> the
    violation on the smallest journal found"""
    def judge(xs):
        r = run_commands(make_record(xs, rec['qword'], rec['fmt'], rec['fkind'], rec['id'], rec['path'], rec['aux'], rec['opt']))
        tmp = lib.Result()
        rows = check_journal_fields(r, tmp)
        if rows is None:
            return None
        oracle(r, rows, tmp)
        for v in tmp.violations:
            if v['key'] == key:
                return v
        return None

    xs = list(rec['xs'])
    best = None
    progress = True
    while progress and len(xs) > 1:
        progress = False
        for i in range(len(xs)):
            cand = xs[:i] + xs[i + 1:]
            v = judge(cand)
            if v:
                xs, best, progress = cand, v, True
                break
    return best


def commands(path, fmt_string, query, aux=False, opt=None):
    """every report of one journal runs with the same query and the same --aux-date setting; `reg2`
    is the register with the OTHER setting (the xml output carries both dates).  Under opt='group'
    the emacs report runs with --group-by payee (the register and csv print a title line per group
    then; they run without the option and are compared as multisets of postings)"""
    flag = ['--aux-date'] if aux else []
    other = [] if aux else ['--aux-date']
    grp = ['--group-by', 'payee'] if opt == 'group' else []
    extra = ()
    if opt == 'display':     # the register of the whole journal: amount texts of the postings --display hides
        extra = (('regall', ['-f', path, 'reg', '--format', REG_FORMAT] + flag),)
    return extra + (('reg', ['-f', path, 'reg', '--format', REG_FORMAT] + flag + query),
            ('reg2', ['-f', path, 'reg', '--format', '%(date)' + ROWEND + '\\n'] + other + query),
            ('csvd', ['-f', path, 'csv'] + flag + query),
            ('csv', ['-f', path, 'csv', '--csv-format', fmt_string] + flag + query),
            ('emacs', ['-f', path, 'emacs'] + flag + grp + query),
            ('xml', ['-f', path, 'xml'] + flag + query))


def run_commands(rec):
    rec['outs'] = {name: lib.run_ledger(args) for name, args in commands(rec['path'], csv_format_string(rec['fmt']), rec['query'], rec['aux'], rec['opt'])}
    try:
        os.unlink(rec['path'])
    except OSError:
        pass
    return rec


def case_of(rec):
    return dict(journal=rec['journal'], file=os.path.basename(rec['path']), query=rec['query'],
                csv_format=csv_format_string(rec['fmt']), aux_date=rec['aux'], option=rec['opt'])


def check_journal_fields(rec, res):
    """the register must show the generated field texts unchanged (generator sanity), and every
    command must succeed; -> register rows or None"""
    case = case_of(rec)
    for name, (st, out, err) in rec['outs'].items():
        if st != 0:
            res.disagreements.append(dict(name='C18/command-failed', case=case, impl='%s: status %s %s' % (name, st, text_of(err)[-300:]), model='status 0'))
            return None
    rows = parse_register(rec['outs']['reg'][1])
    want = []
    for x, posts in rec['shown']:
        for p in posts:
            xnote = '\n'.join(x.notes)
            pnote = '\n'.join(p.notes)
            # (two lone bytes side by side may form a UTF-8 sequence: compare what the bytes decode to)
            want.append({k: text_of(u8(v)) for k, v in dict(payee=x.payee, code=x.code or '', account=p.account, note=pnote + xnote).items()})
    got = None if rows is None else [dict(payee=r['xact.payee'], code=r['code'], account=r['account'], note=r['note']) for r in rows]
    if got != want:
        res.disagreements.append(dict(name='C18/journal-fields', case=case, impl=str(got)[:1500], model=str(want)[:1500]))
        return None
    # amounts: the register's commodity and quantity are those written in the journal
    k = 0
    for x, posts in rec['shown']:
        for p in posts:
            r = rows[k]
            k += 1
            sym = p.comm[0] or ''
            try:
                q = F(r['quantity(scrub(display_amount))'])
            except ValueError:
                q = None
            if r['commodity(scrub(display_amount))'] != sym or q != F(p.cents, 10 ** p.dec):
                res.disagreements.append(dict(name='C18/journal-amounts', case=case, impl=str(r)[:600], model='%s %s' % (sym, F(p.cents, 10 ** p.dec))))
                return None
    return rows


def classify_text(s):
    k = []
    if '"' in s:
        k.append('dquote')
    if '\\' in s:
        k.append('backslash')
    if any(c in s for c in '<>&\''):
        k.append('xmlspecial')
    if ',' in s or ';' in s:
        k.append('comma-semi')
    if any(ord(c) > 127 for c in s):
        k.append('non-ascii')
    return k


def stable_output(out):
    """what a replay compares: the command output without the per-run account addresses"""
    return re.sub(r'\b(id|ref)="[0-9a-f]{8,}"', r'\1="@"', text_of(out))[:6000]


def oracle(rec, rows, res):
    """the property text evaluated on ledger's output"""
    case = case_of(rec)
    outs = rec['outs']

    def viol(key, desc, observed, required):
        cmd = 'xml' if key.startswith('xml') else 'emacs' if key.startswith('emacs') else 'csv' if key.startswith('csv-rfc') else 'csvd'
        c = dict(case, command=cmd, output=stable_output(outs[cmd][1]))
        res.violations.append(dict(key=key, desc=desc, case=c, observed=str(observed)[:800], required=str(required)[:800],
                                   journal_id=rec['id']))

    # the register's dates under the other --aux-date setting
    other_dates = [c for c in text_of(outs['reg2'][1]).split(ROWEND + '\n') if c != '']
    if len(other_dates) != len(rows):
        viol('xml:row-count-differs', 'reg and reg --aux-date list different numbers of postings', len(other_dates), len(rows))
        other_dates = [r['date'] for r in rows]
    # ---- xml: well-formed, and the values are the register's
    xml_bytes = outs['xml'][1]
    try:
        root = ET.fromstring(xml_bytes)
    except ET.ParseError as e:
        viol('xml:not-well-formed', 'xml output is not well-formed: %s' % e, text_of(xml_bytes)[:600], 'a well-formed document')
        root = None
    if root is not None:
        got = []
        for t in root.findall('./transactions/transaction'):
            for p in t.findall('./postings/posting'):
                sym = p.find('./post-amount/amount/commodity/symbol')
                pn = p.find('note')
                # the payee a reader recovers for a posting: its own <payee> if present, else the transaction's
                pp = p.find('payee')
                ref = ''
                for holder in (p, t):        # the posting's own valued tag, else the transaction's
                    vals = [v.findtext('string') or '' for v in holder.findall('./metadata/value') if (v.get('key') or '').lower() == 'ref']
                    if vals:
                        ref = vals[0]
                        break
                # dates: the posting's own element if present, else the transaction's; without any
                # <aux-date> the auxiliary date is the date
                date = p.findtext('date') or t.findtext('date') or ''
                auxd = p.findtext('aux-date') or t.findtext('aux-date') or date
                got.append(dict(ref=ref, date=date, aux_date=auxd, code=t.findtext('code') or '',
                                payee=(pp.text or '') if pp is not None else (t.findtext('payee') or ''),
                                account=p.findtext('./account/name') or '',
                                commodity=(sym.text or '') if sym is not None else '',
                                quantity=p.findtext('./post-amount/amount/quantity') or '',
                                xnote=t.findtext('note') or '', pnote=(pn.text or '') if pn is not None else ''))
        want = []
        k = 0
        for x, posts in rec['shown']:
            for p in posts:
                r = rows[k]
                k += 1
                d_main, d_other = r['date'], other_dates[k - 1]
                want.append(dict(ref=r['tag("ref")'], date=d_other if rec['aux'] else d_main,
                                 aux_date=d_main if rec['aux'] else d_other, code=r['code'], payee=r['payee'], account=r['account'],
                                 commodity=r['commodity(scrub(display_amount))'], quantity=r['quantity(scrub(display_amount))'],
                                 xnote='\n'.join(x.notes), pnote='\n'.join(p.notes)))
        if len(got) != len(want):
            n_all = sum(len(x.posts) for x, _ in rec['shown'])
            if rec['opt'] == 'display' and len(got) == n_all:
                viol('xml:row-count-differs:display-filter-ignored',
                     'under --display the xml output lists every posting of each transaction that has a displayed posting (%d), the register (csv, emacs) only the displayed ones (%d)' % (len(got), len(want)),
                     [g['account'] for g in got], [w['account'] for w in want])
            else:
                viol('xml:row-count-differs', 'the xml output has %d postings, the register %d' % (len(got), len(want)), got, want)
        else:
            seen = set()
            k = 0
            for x, posts in rec['shown']:
                for p in posts:
                    g, w = got[k], want[k]
                    k += 1
                    d = [f for f in w if g[f] != w[f]]
                    if not d:
                        continue
                    key = 'xml:%s-differs' % d[0]
                    desc = 'a value recovered from the xml output differs from the register'
                    if d == ['payee'] and has_payee(p, 'later') and (has_payee(p, 'inline') or has_payee(x, 'all')):
                        # the payee was fixed when the posting LINE was read; a Payee tag on a later line
                        # changes payee_from_tag() (xml) but not post_t::payee() (register, csv)
                        key = 'xml:payee-differs:next-line-tag-after-parse-time-payee'
                        desc = 'posting <payee> shows the Payee tag of a later note line, the register the payee fixed when the posting line was read'
                    if key not in seen:
                        seen.add(key)
                        viol(key, desc, g, w)
        names = {a.findtext('fullname') or '' for a in root.iter('account') if a.find('fullname') is not None}
        for r in rows:
            if r['account'] not in names:
                viol('xml:account-missing', 'an account of the register is not in the xml account tree', sorted(names), r['account'])
                break
        syms = {c.findtext('symbol') or '' for c in root.findall('./commodities/commodity')}
        wsyms = {r['commodity(scrub(display_amount))'] for r in rows} - ({''} if rows else set())
        if not wsyms <= syms:
            viol('xml:commodity-missing', 'a commodity of the register is not in the xml commodity list', sorted(syms), sorted(wsyms))

    # ---- csv: a conventional reader recovers the register's fields
    want_rows = [[r['date'], r['code'], r['payee'], r['display_account'], r['commodity(scrub(display_amount))'],
                  r['quantity(scrub(display_amount))'], r['cleared ? "*" : (pending ? "!" : "")'], r['join(note | xact.note)']] for r in rows]
    want_l1 = [[c.encode('utf-8', 'surrogateescape').decode('latin-1') for c in r] for r in want_rows]
    text = outs['csvd'][1].decode('latin-1')
    lines = text.split('\n')[:-1]
    if len(lines) != len(want_l1):
        viol('csv-default:row-count', 'csv prints %d rows, the register %d' % (len(lines), len(want_l1)), len(lines), len(want_l1))
    else:
        # row by row: a conventional reader (the backslash-escape dialect the default format is
        # written for, or RFC 4180) must recover the register's fields
        for ln, w in zip(lines, want_l1):
            got_bs = csv_rows(ln + '\n', 'bs')
            got_rfc = csv_rows(ln + '\n', 'rfc')
            if got_bs != [w] and got_rfc != [w]:
                viol('csv-default:no-dialect-recovers',
                     'default csv output: neither the backslash-escape reader nor the RFC 4180 reader recovers the fields of this row',
                     ln, w)
                break
            if got_bs != [w] and not any('\\' in c for c in w):
                viol('csv-default:bs:clean-row-not-recovered', 'the backslash reader does not recover a row none of whose fields contains a backslash', ln, w)
                break
            if got_rfc != [w] and not any('"' in c or '\\' in c for c in w):
                viol('csv-default:rfc:clean-row-not-recovered', 'the RFC 4180 reader does not recover a row none of whose fields contains a double quote or a backslash', ln, w)
                break
        else:
            # one dialect for the whole document
            if csv_rows(text, 'bs') != want_l1 and csv_rows(text, 'rfc') != want_l1:
                viol('csv-default:no-dialect-recovers', 'default csv output: no single conventional dialect recovers every row of this report',
                     text[:600], want_rows)
    # "recovers the original field values": the note column against the note as the journal has
    # it (the register's plain %(note), which check_journal_fields ties to the generated text: the
    # posting's note followed by the transaction's), a line break inside it written as the two
    # characters \n - evaluated here, not by asking ledger's join()
    orig_l1 = [w[:7] + [r['note'].replace('\n', '\\n').encode('utf-8', 'surrogateescape').decode('latin-1')]
               for w, r in zip(want_l1, rows)]
    if len(lines) == len(orig_l1):
        for ln, w in zip(lines, orig_l1):
            recovered = [g for g in (csv_rows(ln + '\n', 'bs'), csv_rows(ln + '\n', 'rfc')) if g is not None and len(g) == 1 and len(g[0]) == len(w)]
            if not recovered or any(g == [w] for g in recovered):
                continue
            col = [i for i in range(len(w)) if recovered[0][0][i] != w[i]][0]
            viol('csv-default:%s-not-the-journal-text' % CSV_ORDER[col],
                 'default csv output: the %s a csv reader recovers from this row is not the text the journal (and the register) has' % CSV_ORDER[col],
                 dict(row=ln.encode('latin-1').decode('utf-8', 'replace'), recovered=recovered[0][0][col].encode('latin-1').decode('utf-8', 'replace')),
                 w[col].encode('latin-1').decode('utf-8', 'replace'))
            break
    if rec['fkind'] == 'all-rfc':
        t2 = outs['csv'][1].decode('latin-1')
        got = csv_rows(t2, 'rfc')
        if got != want_l1:
            viol('csv-rfc:not-recovered', 'csv written with quoted_rfc() is not recovered by an RFC 4180 reader', t2[:600], want_rows)
        if got is not None and got != orig_l1 and len(got) == len(orig_l1) and all(len(g) == 8 for g in got):
            col = [i for g, w in zip(got, orig_l1) for i in range(8) if g[i] != w[i]][0]
            viol('csv-rfc:%s-not-the-journal-text' % CSV_ORDER[col],
                 'csv written with quoted_rfc(): the %s an RFC 4180 reader recovers is not the text the journal (and the register) has' % CSV_ORDER[col],
                 t2[:600], [w[col].encode('latin-1').decode('utf-8', 'replace') for w in orig_l1])

    # ---- emacs: one balanced, readable S-expression carrying the register's values
    etext = text_of(outs['emacs'][1])
    try:
        forms = sexp_read(etext)
    except Unreadable as e:
        groups = {r['payee'] for r in rows}
        if rec['opt'] == 'group' and len(groups) >= 2:
            viol('emacs:unreadable:group-by-two-groups', 'emacs --group-by payee with %d groups is not a readable S-expression: %s' % (len(groups), e),
                 etext[:600], 'balanced, readable')
        else:
            viol('emacs:unreadable', 'emacs output is not a readable S-expression: %s' % e, etext[:600], 'balanced, readable')
        forms = None
    if forms is not None and rec['opt'] == 'group' and forms and all(isinstance(f, list) for f in forms):
        forms = [[xf for f in forms for xf in f]]        # one list per group: the transactions of all groups
    if forms is not None:
        if not rows:
            if forms:
                viol('emacs:shape', 'emacs output for an empty report', etext[:300], 'nothing')
        elif len(forms) != 1 or not isinstance(forms[0], list):
            viol('emacs:shape', 'emacs output is not a single list', etext[:300], 'one list of transactions')
        else:
            got = []
            ok = True
            for xf in forms[0]:
                if not (isinstance(xf, list) and len(xf) >= 5 and isinstance(xf[2], list) and len(xf[2]) == 3):
                    ok = False
                    break
                try:
                    secs = int(xf[2][0][1]) * 65536 + int(xf[2][1][1])
                except (ValueError, TypeError):
                    ok = False
                    break
                y, m, d = civil(secs // 86400)
                code = '' if xf[3] == ('a', 'nil') else xf[3][1]
                for pf in xf[5:]:
                    if not (isinstance(pf, list) and len(pf) >= 4):
                        ok = False
                        break
                    state = {'nil': '', 't': '*', 'pending': '!'}.get(pf[3][1], '?')
                    extra = [e[1] for e in pf[4:]]
                    got.append(dict(date='%04d/%02d/%02d' % (y, m, d), code=code, payee=xf[4][1], account=pf[1][1],
                                    amount=pf[2][1], state=state, extra=extra, line=pf[0][1], xline=xf[1][1], file=xf[0][1]))
            want = []
            header_payees = []
            date_info = []      # (the posting carries a date that applies, the transaction's date)
            k = 0
            for x, posts in rec['shown']:
                xdays = x.eff_aux if (rec['aux'] and x.eff_aux is not None) else x.eff_days
                for p in posts:
                    r = rows[k]
                    k += 1
                    header_payees.append(r['xact.payee'])
                    date_info.append((p.own_date is not None or (rec['aux'] and p.own_aux is not None), fmt_day(xdays)))
                    extra = ([r['cost']] if r['has_cost'] == 'true' else []) + (['\n'.join(p.notes)] if p.notes else [])
                    want.append(dict(date=r['date'], code=r['code'], payee=r['payee'], account=r['account'], amount=r['amount'],
                                     state=r['cleared ? "*" : (pending ? "!" : "")'], extra=extra, line=str(p.line), xline=str(x.line),
                                     file=rec['path']))
            if not ok:
                viol('emacs:shape', 'emacs transaction / posting list has an unexpected shape', etext[:600], 'lists')
            elif len(got) != len(want):
                viol('emacs:row-count-differs', 'the emacs output has %d postings, the register %d' % (len(got), len(want)), got, want)
            else:
                if rec['opt'] == 'group':
                    # the groups come in the order of their payees: compare posting by posting, matched by line number
                    order = {w['line']: i for i, w in enumerate(want)}
                    got = sorted(got, key=lambda g: order.get(g['line'], -1))
                seen = set()
                for g, w, hp, (own, xd) in zip(got, want, header_payees, date_info):
                    d = [f for f in w if g[f] != w[f]]
                    if not d:
                        continue
                    key = 'emacs:%s-differs' % d[0]
                    desc = 'a value recovered from the emacs output differs from the register'
                    if d[0] == 'date' and own and g['date'] == xd:
                        key = 'emacs:date-differs:posting-date-not-shown'
                        desc = 'the emacs output carries one time value per transaction, xact.date(); the register shows the date the posting itself carries'
                        d = d[1:] or ['date']
                        if key not in seen:
                            seen.add(key)
                            viol(key, desc, g, w)
                        if d == ['date']:
                            continue
                        key = 'emacs:%s-differs' % d[0]
                        desc = 'a value recovered from the emacs output differs from the register'
                    if d == ['payee'] and g['payee'] == hp and w['payee'] != hp:
                        key = 'emacs:payee-differs:payee-tag-not-shown'
                        desc = 'the emacs output carries one payee per transaction, the header text; the register shows the Payee tag that overrides it for this posting'
                    if key not in seen:
                        seen.add(key)
                        viol(key, desc, g, w)


def run(ctx, n_override=None):
    rng = ctx.rng
    res = lib.Result()
    res.rule = ('journals of 1-4 transactions whose payees, codes, account names, notes and quoted commodity symbols are built from '
                'printable ASCII punctuation (" \\ < > & , ; \' and 25 others) and letters of 10 scripts, placed at the start / end / doubled / alone; '
                'each journal is reported by reg, csv (default and a generated --csv-format), emacs and xml, with or without an account query; '
                'non-trivial = at least one reported free-text field contains a character that some writer must escape (" \\ < > & \') or a non-ASCII letter; '
                'distinct by journal text + query + csv format')
    n = n_override or ctx.scale(2000, 10000)
    jdir = ctx.path('journals')
    os.makedirs(jdir, exist_ok=True)
    batch = [make_journal(ctx, rng, i, jdir) for i in range(n)]
    from concurrent.futures import ThreadPoolExecutor
    with ThreadPoolExecutor(max_workers=min(8, lib.NCPU)) as pool:
        list(pool.map(run_commands, batch))
    # model: one driver process for everything
    lines, live = [], []
    reader_lines, reader_meta = [], []
    for rec in batch:
        rows = check_journal_fields(rec, res)
        rec['rows'] = rows
        res.evaluations += 1
        if rows is None:
            continue
        live.append(rec)
        lines.append(build_case(rec['id'], rec['path'], rec['fmt'], rec['xs'], rec['shown'], rows, rec['aux'], rec['opt'] == 'display'))
        # reader specifications against python's readers, on ledger's real output
        outs = rec['outs']
        for what, name in (('rfc', 'csvd'), ('bs', 'csvd'), ('rfc', 'csv'), ('lisp', 'emacs'), ('xmltags', 'xml')):
            if what == 'rfc' and name == 'csv' and rec['fkind'] != 'all-rfc':
                continue
            if what == 'xmltags' and not in_quantifier(rec['journal'].replace('\n', '')):
                continue      # expat reads XML 1.0 in UTF-8: it rejects control bytes and bytes outside UTF-8, which boost writes raw
            data = outs[name][1]
            if what == 'xmltags':
                data = data.split(b'\n', 1)[1] if data.startswith(b'<?xml') else data    # without the declaration
            reader_lines.append(lib.sx(['read', what, rec['id'], data]))
            reader_meta.append((rec, what, name, data))
    # --display: format_ptree::flush walks xact->posts by POST_EXT_VISITED, which calc_posts sets BEFORE the
    # display filter - the model's xml_transactions is given the postings the code walks (all of them, for
    # each transaction with a displayed posting)
    # which of the two the current source does is a fact regenerated from ptree.cc (Gen/XmlWalk.v,
    # theorem xml_walk_faithful); the model says it (xml_walk_name: v = visited, d = displayed)
    walk = (lib.run_model('C18', [lib.sx(['xmlwalk', 'w'])]) + [''])[0]
    walk = {'w xmlwalk 76': 'visited', 'w xmlwalk 64': 'displayed'}.get(walk, 'unrecognised')
    res.count('xml posting walk of the source: ' + walk)
    if walk == 'unrecognised':
        res.disagreements.append(dict(name='C18/xml-walk-unrecognised', case={}, impl='ptree.cc format_ptree::flush / operator()', model='Gen/XmlWalk.v: WalkUnrecognised'))
    extra_lines, extra_recs = [], []
    for rec in live:
        if rec['opt'] != 'display' or walk != 'visited':
            continue
        allrows = parse_register(rec['outs']['regall'][1])
        walked = [(x, list(x.posts)) for x, _ in rec['shown']]
        keep = {id(x) for x, _ in rec['shown']}
        if allrows is None or len(allrows) != sum(len(x.posts) for x in rec['xs']):
            res.disagreements.append(dict(name='C18/journal-fields', case=case_of(rec), impl='register of the whole journal: %s rows' % (None if allrows is None else len(allrows)), model='one row per posting'))
            continue
        it = iter(allrows)
        sel = [r for x in rec['xs'] for p in x.posts for r in [next(it)] if id(x) in keep]
        extra_lines.append(build_case(rec['id'] + 'x', rec['path'], rec['fmt'], rec['xs'], walked, sel, rec['aux'], True))
        extra_recs.append(rec)
    out = lib.run_model('C18', lines + extra_lines + reader_lines)
    model = {}
    pos = 0
    for rec in live:
        d = {}
        for _ in range(6):
            parts = out[pos].split(' ')
            pos += 1
            if len(parts) == 3 and parts[0] == rec['id']:
                d[parts[1]] = b'' if parts[2] == '-' else bytes.fromhex(parts[2])
            else:
                d['error'] = out[pos - 1]
        model[rec['id']] = d
    for rec in extra_recs:
        for _ in range(6):
            parts = out[pos].split(' ')
            pos += 1
            if len(parts) == 3 and parts[0] == rec['id'] + 'x' and parts[1] == 'xmlt':
                model[rec['id']]['xmlt'] = b'' if parts[2] == '-' else bytes.fromhex(parts[2])
    for rec in live:
        case = case_of(rec)
        outs = rec['outs']
        m = model[rec['id']]
        xt, xa, xc = canon_xml(text_of(outs['xml'][1]))
        impl = dict(csv=outs['csv'][1], csvd=outs['csvd'][1], emacs=outs['emacs'][1],
                    xmlt=(xt or '').encode('utf-8', 'surrogateescape'), xmla=(xa or '').encode('utf-8', 'surrogateescape'),
                    xmlc=(xc or '').encode('utf-8', 'surrogateescape'))
        res.traces += 1
        if rec['opt']:
            res.count('option:' + {'display': '--display PREDICATE', 'group': '--group-by payee (emacs: oracle only)'}[rec['opt']])
        for k in ('csvd', 'csv', 'emacs', 'xmlt', 'xmla', 'xmlc'):
            if k == 'emacs' and rec['opt'] == 'group':
                continue      # the emacs writer across groups is not modelled (finding F1802); the oracle judges it
            if m.get(k) != impl[k]:
                res.disagreements.append(dict(name='C18/' + k, case=case, impl=text_of(impl[k])[:1500],
                                              model=text_of(m[k])[:1500] if k in m else m.get('error')))
        # the oracle speaks for the journals of the property's quantifier (printable characters); a
        # journal with control bytes, non-letter code points or bytes outside UTF-8 is compared with
        # the model only (boost writes such bytes raw: not well-formed XML 1.0)
        inq = in_quantifier(rec['journal'].replace('\n', ''))
        if inq:
            oracle(rec, rec['rows'], res)
        else:
            res.count('journal-outside-quantifier (correspondence only)')
        jt = rec['journal']
        if any(c in jt for c in CTL):
            res.count('journal-with:control-byte')
        if any(c in jt for c in NONLETTER):
            res.count('journal-with:non-letter-code-point')
        if any(c in jt for c in RAW):
            res.count('journal-with:byte-outside-utf8')
        texts = []
        for x, posts in rec['shown']:
            texts += [x.payee, x.code or ''] + x.notes
            for p in posts:
                texts += [p.account, p.comm[0] or ''] + p.notes
        kinds = set()
        for t in texts:
            kinds.update(classify_text(t))
        for k in kinds:
            res.count('journal-with:' + k)
        res.count('query' if rec['query'] else 'no-query')
        res.count('csv-format:' + rec['fkind'])
        res.count('postings', sum(len(ps) for _, ps in rec['shown']))
        if rec['aux']:
            res.count('with --aux-date')
        if any(x.aux_days is not None for x, _ in rec['shown']):
            res.count('journal-with:header-aux-date')
        if any(x.own_date is not None or x.own_aux is not None for x, _ in rec['shown']):
            res.count('journal-with:transaction-note-date')
        for form, f in (('[DATE]', lambda p: p.own_date is not None and p.own_aux is None),
                        ('[=AUX]', lambda p: p.own_date is None and p.own_aux is not None),
                        ('[DATE=AUX]', lambda p: p.own_date is not None and p.own_aux is not None)):
            if any(f(p) for _, ps in rec['shown'] for p in ps):
                res.count('journal-with:posting-' + form)
        if any(min(x.eff_days, x.eff_aux if x.eff_aux is not None else 0) < 0 for x, _ in rec['shown']):
            res.count('journal-with:date-before-1970')
        if any(max(x.eff_days, x.eff_aux or 0) > 24855 for x, _ in rec['shown']):
            res.count('journal-with:date-after-2038')
        if any(has_payee(x, 'all') for x, _ in rec['shown']):
            res.count('journal-with:transaction-payee-tag')
        if any(has_payee(p, 'inline') for _, ps in rec['shown'] for p in ps):
            res.count('journal-with:posting-payee-tag-inline')
        if any(has_payee(p, 'later') for _, ps in rec['shown'] for p in ps):
            res.count('journal-with:posting-payee-tag-next-line')
        if any(has_payee(p, 'later') and (has_payee(p, 'inline') or has_payee(x, 'all')) for x, ps in rec['shown'] for p in ps):
            res.count('journal-with:payee-tag-both-levels')
        if any(m for x, ps in rec['shown'] for it in [x] + ps for m in it.metas):
            res.count('journal-with:metadata')
        if not rec['xs']:
            res.count('journal-without-transactions')
        if not rec['shown']:
            res.count('empty-report')
        if any(x.code is not None and x.code.strip(' ') == '' for x, _ in rec['shown']):
            res.count('journal-with:empty-or-blank-code')
        if any(p.cost for _, ps in rec['shown'] for p in ps):
            res.count('journal-with:cost')
        if any(p.virtual for _, ps in rec['shown'] for p in ps):
            res.count('journal-with:virtual')
        if any(len(x.notes) > 1 or any(len(p.notes) > 1 for p in ps) for x, ps in rec['shown']):
            res.count('journal-with:multi-line-note')
        if kinds & {'dquote', 'backslash', 'xmlspecial', 'non-ascii'}:
            res.nontrivial.add(rec['journal'] + '|' + ' '.join(rec['query']) + '|' + csv_format_string(rec['fmt']))
        if len(res.samples) < 4 and {'dquote', 'backslash', 'xmlspecial'} <= kinds:
            res.samples.append(dict(journal=rec['journal'], query=rec['query'], csv=text_of(outs['csvd'][1])[:400],
                                    emacs=text_of(outs['emacs'][1])[:400]))
    # minimise the first violation of each class (the replay file then holds a small journal)
    first = {}
    for v in res.violations:
        first.setdefault(v['key'], v)
    by_id = {rec['id']: rec for rec in live}
    for key, v in first.items():
        rec = by_id.get(v.get('journal_id'))
        if rec is None:
            continue
        small = shrink(rec, key)
        if small:
            i = res.violations.index(v)
            res.violations[i] = small
    # reader cross-check
    for (rec, what, name, data), line in zip(reader_meta, out[pos:]):
        got = line.split(' read ', 1)[1] if ' read ' in line else line
        if what in ('rfc', 'bs'):
            py = show_rows(csv_rows(data.decode('latin-1'), what))
        elif what == 'xmltags':
            py = xml_events(data)
        else:
            try:
                forms = sexp_read(data.decode('latin-1'))
                py = 'sexp ' + ' '.join(show_sexp(f) for f in forms)
            except Unreadable:
                py = 'none'
        res.traces += 1
        res.count('reader-spec:%s:%s' % (what, 'reads' if got != 'none' else 'rejects'))
        if what in ('bs', 'rfc') and got == 'none':
            # the specification readers reject what RFC 4180 / the backslash convention leave
            # undefined; python's csv module stays lenient there even with strict=True (text after a
            # closing quote in the backslash dialect, a quote inside an unquoted cell)
            continue
        if got != py:
            res.disagreements.append(dict(name='C18/reader-spec-' + what, case=dict(text=text_of(data)[:800]), impl=py[:800], model=got[:800]))
    return res


def search(ctx, broken):
    import random
    for s in range(4):
        ctx.rng = random.Random('C18-search-%d-%d' % (ctx.seed, s))
        r = run(ctx, n_override=600)
        known = [k for k in lib.load_known_findings() if k['prop'] == 'C18']
        v = [x for x in r.violations if not any(re.fullmatch(k['match'], x['key']) for k in known)]
        if v:
            return v
    return []


def replay(ctx, obj):
    """re-run the stored command on the stored journal: the violation stands when ledger still
    prints what was judged (the judgement itself is stored in the replay file)"""
    res = lib.Result()
    case = obj.get('case') or {}
    if 'journal' not in case:
        return res
    jdir = ctx.path('journals')
    os.makedirs(jdir, exist_ok=True)
    path = os.path.join(jdir, case.get('file') or 'replay.dat')
    with open(path, 'wb') as f:
        f.write(case['journal'].encode('utf-8', 'surrogateescape'))
    q = case.get('query') or []
    cmd = case.get('command', 'csvd')
    args = dict(commands(path, case.get('csv_format', ''), q, case.get('aux_date', False), case.get('option')))[cmd]
    st, out, err = lib.run_ledger(args)
    st2, reg, _ = lib.run_ledger(['-f', path, 'reg', '--format', '%(date)|%(code)|%(payee)|%(display_account)|%(join(note | xact.note))\\n'] + q)
    print('replay: ledger %s' % ' '.join(args[2:]))
    print(text_of(out)[:2000])
    print('register fields (date|code|payee|account|note):')
    print(text_of(reg)[:1000])
    if cmd in ('csv', 'csvd'):
        text = out.decode('latin-1')
        print('python csv, RFC 4180 dialect:  %r' % (csv_rows(text, 'rfc'),))
        print('python csv, backslash dialect: %r' % (csv_rows(text, 'bs'),))
    print('required: %s' % obj.get('required'))
    if stable_output(out) == case.get('output'):
        res.violations.append(dict(key=obj.get('key', ''), desc=obj.get('desc', '')))
    return res
