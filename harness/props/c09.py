"""C09 - balance assertions and assignments use the true running balance in file order.
Correspondence: histories of transactions with `= AMOUNT` clauses through ledger and through the
extracted model (Model/Assert.v over Model/Xact.v): per transaction accept / 'Balance assertion off
by' / other error, per posting the exact amount (the assigned amounts in particular).
Oracle (property text, Fractions): an independent fold over the history in file order decides every
assertion (exact account, real postings only for an assertion on a real posting, all postings for one
on a virtual posting, dates ignored, lots stripped, bare 0 = every commodity zero) and computes every
assigned amount; --permissive never fails an assertion.  A <deferred> posting counts within its own transaction only,
until the file of its -f option has ended; inside `apply account` blocks the fold is over the qualified accounts; a cost
plays no part (the amount is counted); a bare `= 0` assignment receives minus the account's one commodity, nothing when
it holds none, and is an error when it holds several."""
import re
from fractions import Fraction as F
import lib
import xactlib as X

META = dict(
    id='C09',
    level='proof',
    technique='Coq proof about the model of the `= AMOUNT` clause (assertion accepted iff running balance + posting - asserted amount displays as zero in the asserted commodity; assignment receives exactly asserted - running; permissive skips; dates play no role by construction) + differential correspondence against ledger',
    level_text='Theorems in coq/Properties/Properties_C09.v are stated for resolve_assigned/run_journal_a, a transcription of parse_post\'s balance assertion/assignment code over the account totals (a fold over the postings that reached the account, in file order). The tie to the code is the comparison of whole generated histories (1-40 transactions, assertions and assignments on arbitrary postings, shuffled dates, virtual/real mix, lots, costs, <deferred> postings with the end of the first -f file, apply account blocks, bare `= 0` clauses, --permissive) between ledger and the extracted model (run_journal_d): acceptance, error class and the exact amount of every posting.',
    level_note='Trusted as C01. The lazy last_post/CONSIDERED walk of account_t::amount is modelled as the plain sum it computes (validated by the correspondence). Account aliases, a transaction read twice under one UUID (its deferred postings are released early), assertions with value expressions, and assertions following an elided posting to the same account (an error in ledger: the running balance is undefined), are outside the generators.',
    design_ref='DESIGN.md section 7 C09',
    assumptions=['every commodity is taught its display precision by a first transaction, and all amounts are written with that many decimals',
                 'accounts are plain names; virtual accounts use the same names in (parentheses)'],
)

DEC = {'$': 2, 'EUR': 2, 'AAA': 0}
ACCTS = ['Assets:Bank', 'Assets:Bank:Sub', 'Assets:Cash', 'Expenses:Food', 'Liabilities:Card']


# automated transactions: what the rule adds to a transaction reaches the accounts with it; later assertions count it
AUTO_SRC, AUTO_BUDGET, AUTO_POOL = 'Expenses:Auto', 'Budget:Expenses:Auto', 'Budget:Pool'
AUTO_TEXT = '= /^Expenses:Auto$/\n    [Budget:$account]    -1\n    [Budget:Pool]    1\n\n'
AUTO_SX = ['auto', ['rule', AUTO_SRC.encode(), ['line', b'Budget:', True, 'B', -1, 1], ['line', AUTO_POOL.encode(), False, 'B', 1, 1]]]
AUTO = ['']          # the rule text in front of the first file when the journal has one


class WPost(X.Post):
    def __init__(self, acct, kind='R', amt=None, cost=None, lot=None, assigned=None):
        super().__init__(acct, kind, amt, cost, lot)
        self.assigned = assigned

    def text(self):
        if self.kind == 'D':            # <Account>: a deferred posting (real while its transaction is read)
            self.kind = 'R'
            t = super().text().replace(self.acct, '<%s>' % self.acct, 1)
            self.kind = 'D'
        else:
            t = super().text()
        if self.assigned is not None:
            t += ('    = ' if self.amt is None else ' = ') + self.assigned.text()
        return t

    def sx(self):
        return super().sx() + [self.assigned.sx() if self.assigned else '-']


def amt(rng, sym, lo=-5000, hi=5000):
    d = DEC[sym]
    return X.Amt(F(rng.randrange(lo, hi), 10 ** d), d, sym)


class Running:
    """the oracle's state: per account, the postings that reached it, in file order"""
    def __init__(self):
        self.hist = []         # (acct, virtual, sym, value)
        self.held = []         # the same of deferred postings <Account>: they reach the account at the end of the -f file

    def end_of_file(self):
        self.hist.extend(self.held)
        self.held = []

    def balance(self, acct, count_virtual, extra=()):
        tot = {}
        for a, v, s, q in [e[:4] for e in list(self.hist) + list(extra)]:
            if a == acct and (count_virtual or not v):
                tot[s] = tot.get(s, 0) + q
        return tot


class AXact(X.Xact):
    """a transaction written inside `apply account N1` .. `apply account Nk`: its postings carry the names as written"""
    stack = ()

    def text(self, i):
        t = super().text(i)
        if not self.stack:
            return t
        return ''.join('apply account %s\n' % n for n in self.stack) + '\n' + t + '\n' + 'end apply account\n' * len(self.stack)

    def sx(self):
        if not self.stack:
            return super().sx()
        return ['xact-in', [n.encode() for n in self.stack]] + [p.sx() for p in self.posts]


def virt(kind):
    return kind in ('V', 'B')


def gen_history(rng, auto=False, deferred=False, stack=()):
    """-> (xacts, expected, eof) where expected[i] = 'ok' | 'assert' | 'multi' and per posting assigned values
    deferred: some postings are written <Account>; eof = the index of the transaction in front of which the file of the
    first -f option ends (what the accounts held back counts from there on), or None: one -f file
    stack: some transactions are written inside `apply account` blocks of these names (outermost first); the oracle
    folds over the accounts the postings then belong to (N1:..:Nk:written name)
    auto: the journal starts with the rule AUTO_TEXT; postings to AUTO_SRC make it add a pair of [balanced virtual]
    postings, and the assertions and assignments are (also) made on the two accounts those reach"""
    syms = rng.sample(list(DEC), rng.choice([1, 2, 3]))
    accts = rng.sample(ACCTS, rng.randrange(1, 5)) + ['Equity:Open']
    if stack:
        # accounts that a block reaches by a short name, and accounts whose name means another account inside it
        accts = ['Assets:Bank', 'Assets:Bank:Sub'] + rng.sample(ACCTS[2:], rng.randrange(1, 3)) + ['Equity:Open']
    if auto:
        accts = rng.sample(ACCTS, rng.randrange(0, 3)) + [AUTO_BUDGET, AUTO_POOL][:rng.choice([1, 2, 2])] + ['Equity:Open']
    # the first `warm` transactions leave the two accounts to the rule alone: what they hold when the first written
    # `= AMOUNT` is judged on them was put there by generated postings only
    warm = rng.randrange(1, 4) if auto else 0
    plain = [a for a in accts[:-1] if a not in (AUTO_BUDGET, AUTO_POOL)] or ['Assets:Cash']
    run = Running()
    xs, exp = [], []
    teach = X.Xact([WPost('Teach:A%d' % i, 'R', X.Amt(F(1), DEC[s], s)) for i, s in enumerate(DEC)] + [WPost('Teach:Eq')], date='2019/01/01')
    xs.append(teach)
    exp.append(dict(kind='ok', assigned={}))
    n = rng.randrange(1, 41)
    eof = rng.randrange(2, n + 2) if deferred and n > 1 and rng.random() < 0.6 else None
    for k in range(n):
        if eof is not None and len(xs) == eof:
            run.end_of_file()
        posts = []
        pre = ':'.join(stack) if stack and rng.random() < 0.45 else ''

        def names(acct):
            """(the account the posting belongs to, the name to write)"""
            if not pre:
                return acct, acct
            return (acct, acct[len(pre) + 1:]) if acct.startswith(pre + ':') else (pre + ':' + acct, acct)
        extra = []                     # postings of this transaction so far
        verdict = 'ok'
        assigned = {}
        for j in range(rng.randrange(1, 4)):
            acct = rng.choice(plain if k < warm else accts[:-1])
            if auto and k == warm and j == 0:
                acct = rng.choice([a for a in accts[:-1] if a in (AUTO_BUDGET, AUTO_POOL)])
            acct, written = names(acct)
            kr = rng.random()
            kind = 'V' if kr < 0.17 else 'B' if kr < 0.27 else 'R'      # (virtual), [balanced virtual], real
            if deferred and 0.27 <= kr < 0.55:
                kind = 'D'                                              # <deferred>: real, but held back by the account
            sym = rng.choice(syms)
            r = rng.random()
            lot = None
            if r < 0.25 and rng.random() < 0.2:
                # bare assignment `= 0`: every commodity of the account is meant; one amount must complete them all
                bal = dict((s, v) for s, v in run.balance(acct, virt(kind), extra).items() if v != 0)
                p = WPost(written, kind, None, None, None, X.Amt(F(0), 0, None))
                if len(bal) > 1:
                    verdict = 'multi'
                else:
                    s1, v1 = list(bal.items())[0] if bal else (None, F(0))
                    assigned[len(posts)] = (s1, -v1)
                    if s1 is not None:
                        extra.append((acct, virt(kind), s1, -v1, kind != 'V', kind == 'D', (s1, -v1)))
            elif r < 0.25:
                # assignment: amount-less posting with = X
                target = amt(rng, sym)
                bal = run.balance(acct, virt(kind), extra).get(sym, 0)
                val = target.value - bal
                p = WPost(written, kind, None, None, None, target)
                assigned[len(posts)] = (sym, val)
                extra.append((acct, virt(kind), sym, val, kind != 'V', kind == 'D', (sym, val)))
            else:
                a = amt(rng, sym)
                cost = None
                if sym == 'AAA' and rng.random() < 0.3 and not any(q.lot for q in posts):
                    lot = X.Amt(F(rng.randrange(100, 999), 100), 2, '$')
                elif len(syms) > 1 and a.value != 0 and rng.random() < 0.2:
                    # a cost: the transaction balances on it, the account (and every `= AMOUNT`) counts the amount.  Per
                    # unit only on a whole quantity (the total then has the decimals of its commodity)
                    csym = rng.choice([s for s in syms if s != sym])
                    cost = ('u' if sym == 'AAA' and rng.random() < 0.5 else 't', amt(rng, csym, 1, 3000))
                p = WPost(written, kind, a, cost, lot)
                if lot is not None and rng.random() < 0.4:
                    p.lot_fixed = True          # {=PRICE}: once the commodity has lots of both kinds, reports keep the fixated price apart
                extra.append((acct, virt(kind), sym, a.value, kind != 'V', kind == 'D', p.balancing() if cost else (sym, a.value)))
                if r < 0.6 and verdict == 'ok':
                    bal = run.balance(acct, virt(kind), extra)
                    if rng.random() < 0.12:
                        # bare zero: every commodity of the account must be zero
                        p.assigned = X.Amt(F(0), 0, None)
                        if any(v != 0 for v in bal.values()):
                            verdict = 'assert'
                    else:
                        asym = sym if rng.random() < 0.8 else rng.choice(syms)
                        true_val = bal.get(asym, 0)
                        if rng.random() < 0.3:
                            off = F(rng.choice([1, -1, 2, 10, -25]), 10 ** rng.choice([0, DEC[asym]]))
                            p.assigned = X.Amt(true_val + off, DEC[asym], asym)
                            verdict = 'assert'
                        else:
                            p.assigned = X.Amt(true_val, DEC[asym], asym)
            posts.append(p)
            if verdict != 'ok':
                break
        if auto and verdict == 'ok' and (k < warm or rng.random() < 0.45):
            a = amt(rng, rng.choice(syms))
            pos = rng.randrange(0, len(posts) + 1)
            posts.insert(pos, WPost(AUTO_SRC, 'R', a))
            assigned = {(k if k < pos else k + 1): v for k, v in assigned.items()}
            extra.append((AUTO_SRC, False, a.sym, a.value, True, False, (a.sym, a.value)))
        # balance the postings that must balance (real and [balanced virtual]) with an elided posting: mostly a real Equity
        # posting, sometimes a [balanced virtual] one on one of the accounts under test - what it receives (one generated
        # posting per commodity) then counts as virtual for every later assertion
        ekind, eacct = 'R', 'Equity:Open'
        if any(q.kind != 'V' for q in posts):
            if rng.random() < 0.25:
                ekind, eacct = 'B', rng.choice(plain if k < warm else accts[:-1])
                if deferred and rng.random() < 0.5:
                    ekind = 'D'         # an elided deferred posting: the postings made for its commodities are deferred too
            eacct, ewritten = names(eacct)
            posts.append(WPost(ewritten, ekind, None))
        x = AXact(posts, date='2020/%02d/%02d' % (rng.randrange(1, 13), rng.randrange(1, 29)))
        x.stack = tuple(stack) if pre else ()
        xs.append(x)
        exp.append(dict(kind=verdict, assigned=assigned))
        if verdict == 'ok':
            run.hist.extend(e for e in extra if not e[5])
            run.held.extend(e for e in extra if e[5])
            for q in posts:
                if q.acct == AUTO_SRC and q.amt is not None:
                    run.hist.append((AUTO_BUDGET, True, q.amt.sym, -q.amt.value, True))
                    run.hist.append((AUTO_POOL, True, q.amt.sym, q.amt.value, True))
            # what the elided posting receives: minus the must-balance postings, per commodity
            tot = {}
            for e in extra:
                if e[4]:
                    s, q = e[6]
                    s = s.split('~')[0]
                    tot[s] = tot.get(s, 0) + q
            for s, q in tot.items():
                if q != 0:
                    (run.held if ekind == 'D' else run.hist).append((eacct, virt(ekind), s, -q, True))
    return xs, exp, eof


def e_kind(e):
    return e['kind']


def declarations():
    """every account and commodity the generator uses, declared: under --strict / --pedantic nothing is unknown"""
    accts = ACCTS + [AUTO_SRC, AUTO_BUDGET, AUTO_POOL, 'Budget:$account', 'Equity:Open', 'Teach:Eq'] + ['Teach:A%d' % i for i in range(len(DEC))]
    return ''.join('account %s\n' % a for a in accts) + ''.join('commodity %s\n' % c for c in DEC) + '\n'


def journal_sx(jid, xs, permissive, auto=False, eof=None):
    items = []
    for i, x in enumerate(xs):
        if eof is not None and i == eof:
            items.append(['eof'])       # the file of the first -f option ends here: what the accounts held back reaches them
        items.append(x.sx())
    return lib.sx(['journal', jid, ['permissive', permissive]] + ([AUTO_SX] if auto else []) + items)


def clean(xs, rejected):
    return '\n'.join(x.text(i) for i, x in enumerate(xs) if i not in rejected)


def write_layout(ctx, name, xs, cut, skip=()):
    """one file, or (cut = (a, b)) the transactions a..b-1 in a file included from the middle of the main one: the reader
    treats an include as the concatenation (C08), with the same options in force inside it (--permissive included)
    -> (main path, {file base name: text})"""
    def body(lo, hi):
        return ('' if lo else PRELUDE[0] + AUTO[0]) + '\n'.join(x.text(i) for i, x in enumerate(xs) if lo <= i < hi and i not in skip)
    main = ctx.path(name)
    if cut is None:
        texts = {name: body(0, len(xs))}
    elif cut[0] == 'two':
        # two files given by two -f options: read into the same journal one after the other
        texts = {name: body(0, cut[1]), name.replace('.dat', '_second.dat'): body(cut[1], len(xs))}
    else:
        a, b = cut
        inc = name.replace('.dat', '_inc.dat')
        texts = {name: body(0, a) + '\n\ninclude %s\n\n' % inc + body(b, len(xs)), inc: body(a, b)}
    for k, v in texts.items():
        open(ctx.path(k), 'w').write(v)
    return main, texts


PRELUDE = ['']      # declarations in front of the first file when a checking option is in force


def run_layout(ctx, name, xs, cut, extra, skip=()):
    path, texts = write_layout(ctx, name, xs, cut, skip)
    more = ['-f', ctx.path(list(texts)[1])] if (cut and cut[0] == 'two') else []
    st, out, err = lib.run_ledger(['-f', path] + more + ['reg', '--empty', '--no-rounding', '--format', X.REG_FMT] + list(extra))
    return st, out, err, path, texts


ERRS = X.ERR_CLASSES + [('Balance assertion off by', 'AssertOff'), ('Cannot strip commodity annotations', 'NullAmt'),
                        ('Cannot convert a balance with multiple commodities to an amount', 'MultiComm')]


def run(ctx, n_override=None):
    rng = ctx.rng
    res = lib.Result()
    res.rule = ('histories of 1-40 transactions (plus a first transaction teaching every commodity its precision) on 1-4 of 5 '
                'accounts incl. a sub-account, 1-3 commodities, real, (virtual) and [balanced virtual] postings, an elided amount on a real or a '
                '[balanced virtual] posting (absorbing up to three commodities), lots, dates deliberately out of file '
                'order; `= X` on arbitrary postings: true assertions, false ones off by >= 1 display unit, bare-0 assertions, '
                'assignments, bare `= 0` assignments (the account holding zero, one or several commodities); costs (@ on whole quantities, @@) on postings with and without a clause; '
                'every fourth journal with <deferred> postings (written, elided, carrying a clause), the end of the first -f file where the generator put it; '
                'every fourth journal with transactions inside `apply account` blocks (one or two deep: short names reaching accounts used outside, and names that mean another account inside); with and without --permissive; in one file, with a stretch of the transactions in an included file, or in two files given by two -f options; non-trivial = the transaction carries an assertion or assignment; '
                'distinct by rendered text')
    n = n_override or ctx.scale(150, 3000)
    X.ERR_CLASSES[:] = ERRS
    lines, jobs = [], []
    for j in range(n):
        auto = j % 4 == 3
        deferred = j % 4 == 1
        stack = rng.choice([('Assets',), ('Assets',), ('Assets', 'Bank')]) if j % 4 == 2 else ()
        xs, exp, eof = gen_history(rng, auto, deferred, stack)
        permissive = rng.random() < 0.25
        cut = None
        if deferred:
            # the end of the first -f file is where the generator (and the oracle's fold) put it; the end of an included
            # file releases nothing
            if eof is not None and eof < len(xs):
                cut = ('two', eof)
            else:
                eof = None
                if rng.random() < 0.4 and len(xs) > 2:
                    a = rng.randrange(1, len(xs))
                    cut = (a, rng.randrange(a + 1, len(xs) + 1))
        elif rng.random() < 0.35 and len(xs) > 2:
            a = rng.randrange(1, len(xs))
            cut = (a, rng.randrange(a + 1, len(xs) + 1)) if rng.random() < 0.7 else ('two', a)
            permissive = rng.random() < 0.45
        jobs.append((j, xs, exp, permissive, cut, auto))
        lines.append(journal_sx('j%d' % j, xs, permissive, auto, eof))
    model = X.model_lines_to_map(lib.run_model('C09', lines))
    for j, xs, exp, permissive, cut, auto in jobs:
        jid = 'j%d' % j
        AUTO[0] = AUTO_TEXT if auto else ''
        text = AUTO[0] + X.render_journal(xs)
        if auto:
            res.count('automated-rule')
        if j % 4 == 2:
            res.count('apply-account-stream')
        if j % 4 == 1:
            res.count('deferred-stream' + (':two-f-options' if cut and cut[0] == 'two' else ':included-file' if cut else ':one-file'))
        extra = ['--permissive'] if permissive else []
        # the checking options together: --permissive wins over --strict and --pedantic wherever it stands; alone, --strict
        # and --pedantic leave assertions as they are (every name is declared, so they have nothing else to say)
        PRELUDE[0] = ''
        if j % 4 != 2 and rng.random() < 0.3:
            PRELUDE[0] = declarations()
            other = rng.choice([['--strict'], ['--pedantic'], ['--strict', '--pedantic']])
            extra = (other + extra) if rng.random() < 0.5 else (extra + other)
            res.count('checking-options:' + '+'.join(o.strip('-') for o in extra))
        st, out, err, path, texts = run_layout(ctx, 'C09_%d.dat' % (j % 6), xs, cut, extra)
        res.count('layout:' + (('two-f-options' if cut[0] == 'two' else 'included-file') if cut else 'one-file') + (':permissive' if permissive else ''))
        if cut:
            text = '\n'.join('; ---- file %s\n%s' % kv for kv in texts.items())
        errs = X.parse_errors(err, path, texts)
        rejected = set(k for k in errs if isinstance(k, int))
        rows = X.parse_reg(out)
        if rejected:
            st2, out2, err2, _, _ = run_layout(ctx, 'C09_clean_%d.dat' % (j % 6), xs, cut, extra, skip=rejected)
            rows = X.parse_reg(out2)
            if st2 != 0:
                res.notes.append('clean journal %s still has errors: %s' % (jid, err2.decode()[-200:]))
        for i, x in enumerate(xs):
            res.evaluations += 1
            res.traces += 1
            mk, mrest = model.get((jid, i), ('MISSING', ''))
            impl = X.impl_summary(i, rows, rejected, errs)
            mod = (mk + ' ' + mrest).strip()
            res.count('impl:' + impl.split(' ')[0] + (':' + errs[i] if i in rejected else ''))
            has_clause = any(p.assigned is not None for p in x.posts)
            if getattr(x, 'stack', ()):
                res.count('xact:inside-apply-account:%d' % len(x.stack) + (':with-clause' if has_clause else ''))
            for p in x.posts:
                if p.kind == 'D':
                    res.count('posting:deferred' + (':with-clause' if p.assigned is not None else '') + (':elided' if p.amt is None and p.assigned is None else ''))
                if p.cost is not None:
                    res.count('posting:cost' + (':with-assertion' if p.assigned is not None else ''))
                if p.assigned is not None and p.assigned.sym is None and p.amt is None:
                    res.count('clause:bare-assignment:' + e_kind(exp[i]))
            if has_clause:
                res.nontrivial.add(x.text(0))
            if mk == 'ORDER-DEPENDENT':
                res.count('model:order-dependent')
            elif impl != mod:
                res.disagreements.append(dict(name='C09/assert', case=x.text(i), journal=path, permissive=permissive, impl=impl, model=mod))
            if len(res.samples) < 4 and has_clause and i > 3:
                res.samples.append(dict(xact=x.text(i), impl=impl[:200]))
            # ---- oracle
            e = exp[i]
            want_reject = (e['kind'] == 'assert') and not permissive
            if want_reject and (i not in rejected or errs[i] != 'AssertOff'):
                res.violations.append(dict(key='false-assertion-accepted', desc='a false balance assertion was not rejected',
                                           case=dict(journal=text, xact=i, permissive=permissive, files=texts if cut else None), observed=impl, required='Balance assertion off by ...'))
            if not want_reject and i in rejected and not permissive and e['kind'] == 'ok':
                res.violations.append(dict(key='true-assertion-rejected:' + errs[i], desc='a true balance assertion (or a transaction without one) was rejected: %s' % errs[i],
                                           case=dict(journal=text, xact=i, permissive=permissive, files=texts if cut else None), observed=impl, required='accepted'))
            if e['kind'] == 'multi' and (i not in rejected or errs[i] != 'MultiComm'):
                res.violations.append(dict(key='bare-assignment-over-several-commodities-accepted', desc='`= 0` on an amount-less posting of an account holding two commodities: no single amount completes both, the transaction must be refused',
                                           case=dict(journal=text, xact=i, permissive=permissive, files=texts if cut else None), observed=impl, required='Cannot convert a balance with multiple commodities to an amount'))
            if permissive and i in rejected and errs[i] == 'AssertOff':
                res.violations.append(dict(key='permissive-assertion-failed', desc='--permissive but an assertion failed',
                                           case=dict(journal=text, xact=i, permissive=True, files=texts if cut else None), observed=impl, required='accepted'))
            if i in rows and e['kind'] == 'ok' and not permissive:
                rws = rows[i]
                for k, (sym, val) in e['assigned'].items():
                    if k < len(rws) and (rws[k]['amt'][1] != val or (val != 0 and rws[k]['amt'][0] != sym)):
                        res.violations.append(dict(key='assignment-wrong-amount', desc='assigned posting received %s, required %s %s' % (rws[k]['amt'], val, sym),
                                                   case=dict(journal=text, xact=i), observed=str(rws[k]['amt']), required='%s %s' % (val, sym)))
    return res


def search(ctx, broken):
    import random
    for s in range(4):
        ctx.rng = random.Random('C09-search-%d-%d' % (ctx.seed, s))
        r = run(ctx, n_override=300)
        if r.violations:
            return r.violations
    return []


def replay(ctx, obj):
    res = lib.Result()
    case = obj.get('case') or {}
    if case.get('files'):
        names = list(case['files'])
        for k, v in case['files'].items():
            open(ctx.path(k), 'w').write(v)
        more = ['-f', ctx.path(names[1])] if names[1].endswith('_second.dat') else []
        st, out, err = lib.run_ledger(['-f', ctx.path(names[0])] + more + ['reg', '--empty', '--no-rounding', '--format', X.REG_FMT] + (['--permissive'] if case.get('permissive') else []))
        print('status', st)
        print(out.decode()[:3000])
        print(err.decode()[:3000])
    elif 'journal' in case:
        st, out, err, path = X.run_ledger_journal(ctx, 'replay.dat', case['journal'], ['--permissive'] if case.get('permissive') else [])
        print('status', st)
        print(out.decode()[:3000])
        print(err.decode()[:3000])
    return res
