"""C20 - time-clock entries yield the exact elapsed time.
Correspondence: generated `i`/`o`/`I`/`O` files run through `ledger reg` (with and without
--day-break, fixed --now) and through the extracted Coq model (Model/Timelog.v: journal); every
register row (date, account, exact seconds, payee, code, cleared, check-in and check-out instants,
in journal order), every failing line with its error class, the failure of the end-of-file close and
the exit status are compared.
Oracle: python datetime arithmetic written from the property text (per-account matching of check-ins
and check-outs, elapsed seconds, the calendar days a session touches, per-account sums)."""
import re, time
from datetime import datetime, timedelta, date
import lib

META = dict(
    id='C20',
    level='proof',
    technique='Coq proof (time-clock state machine: session matching, exact elapsed seconds, telescoping day-break pieces, error cases, refinement to a per-account matching specification) + differential correspondence of the extracted model against ledger',
    level_text='Theorems in coq/Properties/Properties_C20.v state, for all event sequences and all timestamps, that the model of time_log_t (clock_in, clock_out, clock_out_from_timelog, the --day-break loop, close) posts for each closed session exactly t_out - t_in seconds on the check-in day to the check-in account; that under --day-break the pieces are the non-empty intersections of the session with the calendar days it touches (contiguous, boundaries at midnights, consecutive dates, telescoping to t_out - t_in, no empty piece for a check-out at midnight); that an account total is the sum of its sessions with or without --day-break; and that a line fails exactly in the three stated cases. The model is tied to the code by running thousands of generated time-clock files (1-60 events, 1-4 accounts, midnights, month ends, leap days, interleaved sessions, every malformed kind) through freshly built ledger and the extracted model and comparing every register row, error line, error class and exit status.',
    level_note='Trusted: Coq kernel; extraction + OCaml driver and the python harness for the correspondence; boost ptime/gregorian arithmetic is modelled as integer seconds with day = t div 86400 (validated against python datetime by the correspondence); the fixed-column reading of i/o lines (textual.cc:467-523) is glue: a line that ends after the timestamp is a check-in to the account named "" or a check-out with no account (NULL).',
    design_ref='DESIGN.md section 7 C20',
    assumptions=['timestamps are well-formed `YYYY/MM/DD HH:MM:SS` between 1990 and 2060',
                 'account names and descriptions are plain words (no double spaces, tabs, `;` or `|`)',
                 '--now is given (a date: the close of still-open sessions happens at its midnight)',
                 'a check-out naming an account that is not open while exactly one other account is open closes that account (F12): observed and modelled, not judged by the oracle'],
)

EPOCH = datetime(1970, 1, 1)
DAY = 86400
ACCOUNTS = ['Work:A', 'Work:A:Sub', 'Proj:Beta', 'Home', 'Work:B', 'X']
PAYEES = ['', '', 'meeting', 'code review', 'ACME corp', 'x']
ANCHORS = [datetime(2020, 2, 28, 20, 0, 0), datetime(2020, 2, 29, 23, 59, 0), datetime(2019, 12, 31, 22, 30, 0),
           datetime(2021, 2, 28, 21, 0, 0), datetime(2020, 4, 30, 23, 0, 0), datetime(2024, 2, 28, 23, 59, 58),
           datetime(2021, 1, 31, 12, 0, 0), datetime(2000, 2, 28, 23, 0, 0), datetime(2020, 3, 1, 0, 0, 0),
           datetime(2020, 12, 31, 23, 59, 59)]
FMT = ('%(date)|%(account)|%(verif_rational(amount))|%(payee)|%(code)|%(cleared)|%(checkin)|%(checkout)'
       '|%(beg_line)|%(virtual)\\n')


def secs(dt):
    return int((dt - EPOCH).total_seconds())


def stamp(t):
    return (EPOCH + timedelta(seconds=t)).strftime('%Y/%m/%d %H:%M:%S')


# ---- generation ------------------------------------------------------------------------------
def gap(rng, t):
    """seconds to the next event: aimed at the day boundary and at the sizes the property names"""
    k = rng.random()
    to_mid = (t // DAY + 1) * DAY - t
    if k < 0.18:
        return rng.randrange(0, 60)
    if k < 0.36:
        return rng.randrange(60, 3600)
    if k < 0.58:
        return rng.randrange(3600, 20 * 3600)
    if k < 0.70:
        return to_mid + rng.choice([-1, 0, 0, 1, 1, 2]) if to_mid > 1 else to_mid
    if k < 0.76:
        return to_mid + DAY * rng.randrange(0, 3)        # exactly a midnight, 0-2 whole days later
    if k < 0.90:
        return DAY * rng.randrange(1, 5) + rng.randrange(-3600, 3600)
    if k < 0.95:
        return 0
    return rng.choice([1, DAY - 1, DAY, DAY + 1, 2 * DAY])


def gen_case(rng, malformed=None):
    """-> dict(events=[...], now=seconds).  An event: kind i/o, t, cap, acct (None = the line names
    no account: a check-in then goes to the account named "", a check-out passes NULL), desc."""
    nacc = rng.choice([1, 1, 2, 2, 3, 4])
    accts = rng.sample(ACCOUNTS, nacc)
    n = rng.choice([1, 2, 2, 3, 4, 5, 6, 8, 10, 12, 16, 20, 30, 45, 60])
    style = rng.choice(['classic', 'named', 'named', 'mixed'])
    if malformed is None:
        pmal = 0.0
    else:
        pmal = rng.choice([0.05, 0.1, 0.25])
    if rng.random() < 0.7:
        t = secs(rng.choice(ANCHORS)) + rng.randrange(-7200, 7200)
    else:
        t = secs(datetime(rng.randrange(1995, 2050), rng.randrange(1, 13), rng.randrange(1, 29))) + rng.randrange(DAY)
    events = []
    opened = []       # (acct, t_in) in check-in order, as the generator intends it

    def ev(kind, t, acct, desc=''):
        events.append(dict(kind=kind, t=t, cap=rng.random() < 0.2, acct=acct, desc=desc))

    for k in range(n):
        t += gap(rng, t)
        names = [a for a, _ in opened]
        free = [a for a in accts if a not in names]
        bad = rng.random() < pmal
        if bad:
            kinds = ['double', 'out-none', 'earlier', 'mismatch', 'anon-multi']
            kind = malformed if (malformed in kinds and rng.random() < 0.7) else rng.choice(kinds)
            if kind == 'double' and opened:
                a = rng.choice(names)
                ev('i', t, a, rng.choice(PAYEES) if a is not None else '')
                continue
            if kind == 'out-none' and not opened:
                ev('o', t, rng.choice([None, rng.choice(accts)]))
                continue
            if kind == 'earlier' and opened:
                a, tin = rng.choice(opened)
                back = rng.choice([1, 1, 2, 60, 3600, DAY, DAY + 1])
                anon = a is None or (len(opened) == 1 and rng.random() < 0.5)
                ev('o', tin - back, None if anon else a)
                if anon and len(opened) > 1:
                    continue                       # fails for want of an account; nothing is dropped
                opened.remove((a, tin))            # ledger drops the check-in although the line fails
                continue
            if kind == 'mismatch' and opened:
                others = [a for a in ACCOUNTS if a not in names]   # (never the account named "": a line cannot spell it)
                ev('o', t, rng.choice(others), rng.choice(PAYEES))
                if len(opened) == 1:
                    opened.clear()                 # F12: the only open session is closed
                continue
            if kind == 'anon-multi' and len(opened) >= 2:
                ev('o', t, None)                   # "requires an account": nothing is closed
                continue
            # the chosen malformation does not apply to the current state: fall through
        want_in = (not opened) or (free and style != 'classic' and rng.random() < 0.45)
        if want_in and None not in names and rng.random() < 0.04:
            ev('i', t, None)                       # a check-in line that ends after the timestamp: account ""
            opened.append((None, t))
        elif want_in and free:
            a = rng.choice(free)
            ev('i', t, a, rng.choice(PAYEES))
            opened.append((a, t))
        elif opened:
            a, tin = rng.choice(opened)
            if a is None and len(opened) > 1:
                a, tin = rng.choice([x for x in opened if x[0] is not None])   # "" can only be closed when alone
            anon = a is None or (len(opened) == 1 and (style == 'classic' or (style == 'mixed' and rng.random() < 0.5)))
            ev('o', t, None if anon else a, '' if anon else rng.choice(PAYEES + ['', '']))
            opened.remove((a, tin))
    last = max(e['t'] for e in events)
    k = rng.random()
    if k < 0.75 or not opened:
        now = (last // DAY + rng.choice([1, 1, 1, 2, 5, 40])) * DAY
    elif k < 0.85:
        now = (last // DAY) * DAY                   # midnight of the last day: at or before the last events
    elif k < 0.95:
        now = (max(tin for _, tin in opened) // DAY) * DAY
    else:
        now = (min(e['t'] for e in events) // DAY - 1) * DAY
    return dict(events=events, now=now)


def gen_directed(rng):
    """the boundary shapes of the day-break loop and of the selection rule, written out"""
    base = secs(rng.choice(ANCHORS)) // DAY * DAY
    a, b = rng.sample(ACCOUNTS, 2)
    E = lambda kind, t, acct, desc='', cap=False: dict(kind=kind, t=t, cap=cap, acct=acct, desc=desc)
    k = rng.randrange(13)
    d = rng.randrange(1, 4)
    if k == 0:    # check-out exactly at a midnight, d days later
        tin = base + rng.choice([0, 1, 3600, DAY - 1])
        evs = [E('i', tin, a, 'p'), E('o', base + d * DAY, a)]
    elif k == 1:  # one second either side of midnight
        evs = [E('i', base + DAY - 1, a), E('o', base + DAY + rng.choice([-1, 0, 1]), a)]
    elif k == 2:  # zero-length session, also exactly at midnight
        tin = base + rng.choice([0, 5, DAY - 1])
        evs = [E('i', tin, a, 'z'), E('o', tin, rng.choice([a, None]))]
    elif k == 3:  # check-in at midnight, whole days
        evs = [E('i', base, a), E('o', base + d * DAY + rng.choice([0, 0, 1]), a, 'done', cap=True)]
    elif k == 4:  # two interleaved sessions, closed in either order, each crossing midnight
        evs = [E('i', base + 100, a, 'one'), E('i', base + 200, b), E('o', base + DAY + 5, rng.choice([a, b]), 'late'),
               E('o', base + 2 * DAY, None)]
    elif k == 5:  # description only on the check-out: moves to the payee
        evs = [E('i', base + 10, a, ''), E('o', base + 20, a, 'from out'), E('i', base + 30, a, 'mine'), E('o', base + 40, a, 'code')]
    elif k == 6:  # sessions left open at the end of the file
        evs = [E('i', base + 50, a, 'open one'), E('i', base + DAY + 50, b)]
    elif k == 7:  # check-out one second earlier than the check-in, then the account again
        evs = [E('i', base + 50, a), E('o', base + 49, a), E('o', base + 60, a)]
    elif k == 8:  # second check-in to the open account; the same name one level down is another account
        evs = [E('i', base + 50, 'Work:A'), E('i', base + 60, 'Work:A:Sub'), E('i', base + 70, 'Work:A'), E('o', base + 80, 'Work:A'),
               E('o', base + 90, 'Work:A:Sub')]
    elif k == 10:  # two open and a check-out that names no account: "requires an account", nothing is closed
        evs = [E('i', base + 1, a), E('i', base + 2, b), E('o', base + 50, None), E('o', base + 60, a), E('o', base + 70, None)]
    elif k == 11:  # a check-in line without account opens the account named ""; alone it is closed by a bare check-out
        evs = [E('i', base + 1, None), E('o', base + DAY + 1, None), E('i', base + DAY + 5, None), E('i', base + DAY + 6, None)][:rng.choice([2, 3, 4])]
    elif k == 12:  # the account "" next to a named one: it can only be closed once it is alone
        evs = [E('i', base + 1, None), E('i', base + 2, a, 'p'), E('o', base + 3, None), E('o', base + 4, a), E('o', base + DAY, None)]
    else:         # three open, closed from the middle; the last one by a line without account
        c = [x for x in ACCOUNTS if x not in (a, b)][0]
        evs = [E('i', base + 1, a), E('i', base + 2, b), E('i', base + 3, c), E('o', base + DAY + 3, b), E('o', base + DAY + 4, a),
               E('o', base + 3 * DAY, None)]
    now = (max(e['t'] for e in evs) // DAY + rng.choice([1, 2])) * DAY
    return dict(events=evs, now=now)


# ---- rendering ----------------------------------------------------------------------------------
def render(case):
    """-> (text, line number of each event)"""
    lines, at = [], []
    for e in case['events']:
        c = e['kind'].upper() if e['cap'] else e['kind']
        s = '%s %s' % (c, stamp(e['t']))
        if e['acct'] is not None:
            s += ' ' + e['acct']
            if e['desc']:
                s += '  ' + e['desc']
        lines.append(s)
        at.append(len(lines))
    return '\n'.join(lines) + '\n', at


def to_model(case):
    """the events as clock_in_directive / clock_out_directive hand them over (textual.cc:467-529): a
    line that ends after the timestamp is a check-in to the account named "" or a check-out whose
    account is NULL"""
    evs = []
    for e in case['events']:
        if e['acct'] is None:
            acct = b'' if e['kind'] == 'i' else 'none'
        else:
            acct = e['acct'].encode()
        evs.append([e['kind'], e['t'], e['cap'], acct, e['desc'].encode()])
    return evs


# ---- the implementation --------------------------------------------------------------------------
ERR_CLASS = [('without a check-in', 'NoCheckin'), ('requires an account', 'NeedAccount'),
             ('does not match any current check-ins', 'NoMatch'), ('less than corresponding check-in', 'Negative'),
             ('double check-in', 'Double')]


def classify(msg):
    for pat, c in ERR_CLASS:
        if pat in msg:
            return c
    return 'Other(%s)' % msg[:60]


def run_impl(path, now, db):
    args = ['-f', path, 'reg', '--empty', '--now', (EPOCH + timedelta(seconds=now)).strftime('%Y/%m/%d'), '--format', FMT]
    if db:
        args.append('--day-break')
    for attempt in range(5):
        try:
            st, out, err = lib.run_ledger(args, timeout=10)
            break
        except OSError:          # the binary is being re-linked by a concurrent build
            if attempt == 4:
                raise
            time.sleep(2)
    rows = []
    for l in out.decode('utf-8', 'replace').split('\n'):
        if not l:
            continue
        f = l.split('|')
        if len(f) != 10:
            rows.append(dict(bad=l))
            continue
        m = re.fullmatch(r'A:73:(-?\d+)/(\d+):\d+:[01]', f[2])
        rows.append(dict(date=f[0], acct=f[1], secs=(int(m.group(1)) if m and m.group(2) == '1' else None), amount=f[2],
                         payee=f[3], code=f[4], cleared=f[5], cin=f[6], cout=f[7], line=f[8], virtual=f[9]))
    errs, close_err = [], None
    pending = None
    for l in err.decode('utf-8', 'replace').split('\n'):
        m = re.match(r'While parsing file "[^"]*", line (\d+):', l)
        if m:
            pending = int(m.group(1))
        elif l.startswith('Error: '):
            if pending is None:
                close_err = classify(l[7:])
            else:
                errs.append((pending, classify(l[7:])))
            pending = None
    return dict(status=st, rows=rows, errs=errs, close=close_err)


def hexs(s):
    return s.encode().hex() if s else '-'


def impl_canon(r, at):
    """the same line the model driver prints"""
    if r['status'] != 0 or r['errs'] or r['close']:
        idx = {ln: i for i, ln in enumerate(at)}
        es = ','.join('%s:%s' % (idx.get(ln, 'L%d' % ln), c) for ln, c in r['errs'])
        extra = '' if not r['rows'] else ';partial-report(%d rows)' % len(r['rows'])
        want_status = 1 if r['close'] else min(len(r['errs']), 255)
        if r['status'] != want_status:
            extra += ';status=%s' % (r['status'],)
        return 'E %s;close:%s%s' % (es, r['close'] or '-', extra)
    out = []
    for w in r['rows']:
        if 'bad' in w or w['secs'] is None:
            out.append('unreadable(%s)' % (w.get('bad') or w['amount']))
            continue
        try:
            d = (datetime.strptime(w['date'], '%Y/%m/%d') - EPOCH).days
            ci = secs(datetime.strptime(w['cin'], '%Y/%m/%d %H:%M:%S'))
            co = secs(datetime.strptime(w['cout'], '%Y/%m/%d %H:%M:%S'))
        except ValueError:
            out.append('unreadable(%s %s %s)' % (w['date'], w['cin'], w['cout']))
            continue
        out.append('%d|%s|%d|%s|%s|%s|%d|%d' % (d, hexs(w['acct']), w['secs'], hexs(w['payee']), hexs(w['code']),
                                                 '1' if w['cleared'] == 'true' else '0', ci, co)
                   + ('' if w['virtual'] == 'true' else '|not-virtual'))
    return 'R ' + ';'.join(out)


# ---- oracle: the property text on what ledger printed ----------------------------------------------
def oracle(case, at, r, db):
    """-> (list of (key, desc, observed, required), list of notes).  Written from the statement:
    per account, a check-in is matched by the next check-out for that account (a check-out line that
    names no account belongs to the only open check-in); sessions, dates and days by datetime."""
    viol, notes = [], []
    opened = {}           # account -> (datetime of check-in, line)
    sessions = []         # (account, t_in, t_out, check-in line)
    first_error = None    # (line, kind) the statement requires
    for e, ln in zip(case['events'], at):
        when = EPOCH + timedelta(seconds=e['t'])
        if e['kind'] == 'i':
            name = e['acct'] if e['acct'] is not None else ''     # no account on the line: the account named ""
            if name in opened:
                first_error = (ln, 'second check-in to an open account')
                break
            opened[name] = (when, ln)
            continue
        a = e['acct']
        if a is None:
            if not opened:
                first_error = (ln, 'check-out with no open check-in')
                break
            if len(opened) > 1:
                notes.append('a check-out naming no account while several accounts are open: the statement does not say which session it ends (ledger: "checking out requires an account")')
                return viol, notes
            a = next(iter(opened))
        elif a not in opened:
            if len(opened) == 1:
                notes.append('F12 form: a check-out naming an account that is not open while exactly one other account is open (ledger ends that session)')
                return viol, notes
            first_error = (ln, 'check-out with no open check-in')
            break
        tin, lin = opened.pop(a)
        if when < tin:
            first_error = (ln, 'check-out earlier than its check-in')
            break
        sessions.append((a, tin, when, lin))
    if r['status'] == 'timeout' or (isinstance(r['status'], int) and r['status'] < 0):
        viol.append(('no-result:%s' % ('timeout' if r['status'] == 'timeout' else 'signal'), 'ledger gives no result on a time-clock file',
                     'status %s' % (r['status'],), 'a report or an error message'))
        return viol, notes
    failed = r['status'] != 0 or bool(r['errs']) or r['close'] is not None
    if first_error:
        ln, what = first_error
        kind = what.split()[0] + '-' + what.split()[1]
        if not failed:
            viol.append(('error-accepted:' + what.replace(' ', '-'), 'line %d is a %s but ledger reports success' % (ln, what),
                         'status 0, %d rows' % len(r['rows']), 'an error'))
        elif ln not in [l for l, _ in r['errs']]:
            viol.append(('error-elsewhere:' + what.replace(' ', '-'), 'line %d is a %s but the error is reported for other lines' % (ln, what),
                         str(r['errs']), 'an error at line %d' % ln))
        return viol, notes
    now = EPOCH + timedelta(seconds=case['now'])
    still = {a: v for a, v in opened.items()}
    if failed:
        if r['errs'] or not any(tin > now for tin, _ in still.values()):
            viol.append(('error-spurious', 'no line is a check-out without check-in, a second check-in or an early check-out, but ledger fails',
                         '%s close=%s' % (r['errs'], r['close']), 'success'))
        return viol, notes
    rows = r['rows']
    if any('bad' in w or w['secs'] is None for w in rows):
        viol.append(('row-unreadable', 'a register row has no whole number of seconds', str(rows)[:300], 'seconds'))
        return viol, notes
    by_line = {}
    for w in rows:
        by_line.setdefault(int(w['line']), []).append(w)
    for a, tin, tout, lin in sessions:
        mine = by_line.get(lin, [])
        whole = int((tout - tin).total_seconds())
        tag = 'daybreak' if db else 'session'
        if any(w['acct'] != a for w in mine):
            viol.append((tag + ':account', 'session of line %d posts to another account' % lin, str([w['acct'] for w in mine]), a))
            continue
        if not db:
            if len(mine) != 1:
                viol.append(('session:count', 'session of line %d (%s) has %d postings' % (lin, a, len(mine)), len(mine), 1))
            elif mine[0]['secs'] != whole:
                viol.append(('session:seconds', 'session %s .. %s' % (tin, tout), mine[0]['secs'], whole))
            elif mine[0]['date'] != tin.strftime('%Y/%m/%d'):
                viol.append(('session:date', 'session %s .. %s is dated %s' % (tin, tout, mine[0]['date']), mine[0]['date'], tin.strftime('%Y/%m/%d')))
            continue
        # one posting per calendar day touched, each the part of the session inside that day
        want = {}
        d = tin.date()
        while datetime.combine(d, datetime.min.time()) < tout:
            lo = max(tin, datetime.combine(d, datetime.min.time()))
            hi = min(tout, datetime.combine(d + timedelta(days=1), datetime.min.time()))
            if hi > lo:
                want[d.strftime('%Y/%m/%d')] = int((hi - lo).total_seconds())
            d += timedelta(days=1)
        got = {}
        for w in mine:
            got[w['date']] = got.get(w['date'], 0) + w['secs']
        if whole == 0 and got == {tin.strftime('%Y/%m/%d'): 0}:
            got = {}              # a session of no seconds touches no day; one 0s posting on its day is as good
        if sum(w['secs'] for w in mine) != whole:
            viol.append(('daybreak:sum', 'pieces of session %s .. %s sum to %d' % (tin, tout, sum(w['secs'] for w in mine)),
                         sum(w['secs'] for w in mine), whole))
        elif len(mine) != len(got):
            viol.append(('daybreak:two-pieces-one-day', 'session %s .. %s' % (tin, tout), str(sorted((w['date'], w['secs']) for w in mine)), str(want)))
        elif got != want:
            viol.append(('daybreak:pieces', 'session %s .. %s' % (tin, tout), str(sorted(got.items())), str(sorted(want.items()))))
        if whole == 0 and not mine:
            notes.append('a zero-second session yields no posting under --day-break (one 0s posting without it)')
    # an account's reported time is the sum of its sessions (still-open ones end at --now)
    totals = {}
    for w in rows:
        totals[w['acct']] = totals.get(w['acct'], 0) + w['secs']
    want = {}
    for a, tin, tout, _ in sessions:
        want[a] = want.get(a, 0) + int((tout - tin).total_seconds())
    for a, (tin, _) in still.items():
        want[a] = want.get(a, 0) + int((now - tin).total_seconds())
    for a in set(totals) | set(want):
        if totals.get(a, 0) != want.get(a, 0):
            viol.append(('account-total', 'time reported for %s' % a, totals.get(a, 0), want.get(a, 0)))
    known = {lin for _, _, _, lin in sessions} | {lin for _, lin in still.values()}
    for ln in by_line:
        if ln not in known:
            viol.append(('posting-without-session', 'a posting is attributed to line %d, which opens no session' % ln, str(by_line[ln])[:200], 'none'))
    return viol, notes


# ---- the run ---------------------------------------------------------------------------------------
def judge(ctx, case, db):
    text, at = render(case)
    path = ctx.path('shrink.dat')
    open(path, 'w').write(text)
    r = run_impl(path, case['now'], db)
    return oracle(case, at, r, db)[0], text


def shrink(ctx, case, db, key):
    """drop events greedily while the oracle still reports `key`"""
    cur = dict(events=list(case['events']), now=case['now'])
    for width in (16, 8, 4, 2, 1):
        i = 0
        while i < len(cur['events']) and len(cur['events']) > 1:
            cand = dict(events=cur['events'][:i] + cur['events'][i + width:], now=cur['now'])
            if cand['events'] and any(v[0] == key for v in judge(ctx, cand, db)[0]):
                cur = cand
            else:
                i += 1
    return cur


def features(case, model_line):
    f = set()
    ev = case['events']
    if any(e['kind'] == 'o' and e['acct'] is None for e in ev):
        f.add('anon-out')
    if any(e['kind'] == 'i' and e['acct'] is None for e in ev):
        f.add('anon-in')
    if model_line.startswith('R'):
        rows = [x.split('|') for x in model_line[2:].split(';')] if len(model_line) > 2 else []
        f.add('rows:%s' % ('0' if not rows else '1' if len(rows) == 1 else '2-9' if len(rows) < 10 else '10+'))
        if any(int(x[7]) % DAY == 0 for x in rows):
            f.add('piece-ends-at-midnight')
        if any(x[2] == '0' for x in rows):
            f.add('zero-seconds')
        if any(int(x[6]) // DAY != (int(x[7]) - 1) // DAY and x[2] != '0' for x in rows):
            f.add('row-spans-days')
    else:
        for c in re.findall(r':([A-Za-z]+)', model_line):
            f.add('err:' + c)
    return f


def run(ctx, n_override=None):
    rng = ctx.rng
    res = lib.Result()
    res.rule = ('time-clock files of 1-60 i/o/I/O events over 1-4 accounts (gaps of seconds to days, aimed at midnights, month ends, '
                '29 February; interleaved sessions; check-outs with and without account; sessions left open; every malformed kind), each '
                'run with and without --day-break; non-trivial = the file closes at least one session or contains an erroneous line; '
                'distinct by file text, --now and the day-break flag')
    n = n_override or ctx.scale(1000, 10000)
    cases = []
    for i in range(n):
        k = rng.random()
        if k < 0.12:
            cases.append(('d', gen_directed(rng)))
        elif k < 0.62:
            cases.append(('v', gen_case(rng)))
        else:
            cases.append(('m', gen_case(rng, malformed=rng.choice(['double', 'out-none', 'earlier', 'mismatch', 'anon-multi', 'anon-multi', 'any']))))
    prepared = []
    model_in = []
    for i, (tag, case) in enumerate(cases):
        text, at = render(case)
        evs = to_model(case)
        for db in (0, 1):
            model_in.append(lib.sx(['case', '%s%d-%d' % (tag, i, db), db, case['now'], [list(e) for e in evs]]))
        prepared.append((tag, case, text, at))
    model_out = lib.run_model('C20', model_in)
    noted = {}
    hangs = 0
    shrunk = set()
    for i, (tag, case, text, at) in enumerate(prepared):
        if hangs >= 3:
            res.notes.append('stopped after 3 runs that did not terminate within 10 s')
            break
        path = ctx.path('tl.dat')
        open(path, 'w').write(text)
        for db in (0, 1):
            r = run_impl(path, case['now'], db)
            if r['status'] == 'timeout':
                hangs += 1
            ri = impl_canon(r, at)
            ml = model_out[2 * i + db]
            rm = ml.split(' ', 1)[1] if ' ' in ml else ml
            res.evaluations += 1
            res.traces += 1
            res.count('kind:' + {'d': 'directed', 'v': 'valid', 'm': 'malformed-stream'}[tag])
            res.count('events:%s' % ('1-2' if len(case['events']) < 3 else '3-10' if len(case['events']) <= 10 else '11-30' if len(case['events']) <= 30 else '31-60'))
            for f in features(case, rm):
                res.count(f)
            canon = '%s|%d|%d' % (text, case['now'], db)
            if any(e['kind'] == 'o' for e in case['events']):
                res.nontrivial.add(canon)
            if len(res.samples) < 4 and 2 <= len(case['events']) <= 6 and (db or len(res.samples) % 2 == 0):
                res.samples.append(dict(journal=text, now=case['now'], day_break=bool(db), impl=ri, model=rm))
            if ri != rm:
                res.disagreements.append(dict(name='C20/register', case=dict(journal=text, now=case['now'], day_break=bool(db)), impl=ri[:600], model=rm[:600]))
            viol, notes = oracle(case, at, r, db)
            for nt in notes:
                noted[nt] = noted.get(nt, 0) + 1
            for key, desc, obs, req in viol:
                jtext = text
                if key not in shrunk and not key.startswith('no-result'):
                    shrunk.add(key)
                    small = shrink(ctx, case, db, key)
                    vs, jtext = judge(ctx, small, db)
                    hit = [v for v in vs if v[0] == key]
                    if hit:
                        _, desc, obs, req = hit[0]
                    else:
                        jtext = text
                res.violations.append(dict(key=key, desc=desc, case=dict(journal=jtext, now=case['now'], day_break=bool(db)),
                                           observed=str(obs), required=str(req)))
    for nt, c in sorted(noted.items()):
        res.notes.append('%s [%d runs]' % (nt, c))
    return res


def search(ctx, broken):
    import random
    for s in range(2):
        ctx.rng = random.Random('C20-search-%d-%d' % (ctx.seed, s))
        r = run(ctx, n_override=2000)
        if r.violations:
            return r.violations
    return []


def replay(ctx, obj):
    res = lib.Result()
    case = obj.get('case') or {}
    if 'journal' in case:
        path = ctx.path('replay.dat')
        open(path, 'w').write(case['journal'])
        r = run_impl(path, case['now'], 1 if case.get('day_break') else 0)
        print('replay: status=%s errors=%s close=%s' % (r['status'], r['errs'], r['close']))
        for w in r['rows']:
            print('replay: row %s' % w)
        print('replay: required %s, observed before %s' % (obj.get('required'), obj.get('observed')))
        # re-judge with the oracle on the events read back from the text
        evs, at = [], []
        for ln, l in enumerate(case['journal'].split('\n'), 1):
            m = re.match(r'([ioIO]) (\d{4}/\d\d/\d\d \d\d:\d\d:\d\d)(?: (.*?))?(?:  (.*))?$', l)
            if m:
                evs.append(dict(kind=m.group(1).lower(), t=secs(datetime.strptime(m.group(2), '%Y/%m/%d %H:%M:%S')), cap=m.group(1).isupper(),
                                acct=m.group(3), desc=m.group(4) or ''))
                at.append(ln)
        viol, _ = oracle(dict(events=evs, now=case['now']), at, r, 1 if case.get('day_break') else 0)
        for key, desc, obs, req in viol:
            if key == obj.get('key'):
                res.violations.append(dict(key=key, desc=desc))
    return res
