"""C20 - time-clock entries yield the exact elapsed time.
Correspondence: generated `i`/`o`/`I`/`O` files run through `ledger reg` (with and without
--day-break, fixed --now) and through the extracted Coq model (Model/Timelog.v: journal); every
register row (date, account, exact seconds, payee, code, cleared, check-in and check-out instants,
in journal order), every failing line with its error class, the failure of the end-of-file close and
the exit status are compared.
Oracle: python datetime arithmetic written from the property text (per-account matching of check-ins
and check-outs, elapsed seconds, the calendar days a session touches, per-account sums)."""
import os, re, time
from datetime import datetime, timedelta, date
from fractions import Fraction as F
import lib

META = dict(
    id='C20',
    level='proof',
    technique='Coq proof (time-clock state machine: session matching, exact elapsed seconds, telescoping day-break pieces, error cases, refinement to a per-account matching specification) + differential correspondence of the extracted model against ledger',
    level_text='Theorems in coq/Properties/Properties_C20.v state, for all event sequences and all timestamps, that the model of time_log_t (clock_in, clock_out, clock_out_from_timelog, the --day-break loop, close) posts for each closed session exactly t_out - t_in seconds on the check-in day to the check-in account; that under --day-break the pieces are the non-empty intersections of the session with the calendar days it touches (contiguous, boundaries at midnights, consecutive dates, telescoping to t_out - t_in, no empty piece for a check-out at midnight); that an account total is the sum of its sessions with or without --day-break; that a line fails exactly in the three stated cases; and that the scaled quantity a report shows (s -> m -> h -> units declared with C directives), times the factors of the units walked, is the number of seconds exactly (the display then rounds it). The model is tied to the code by running thousands of generated time-clock files (1-60 events, 1-4 accounts, midnights, month ends, leap days, interleaved sessions, every malformed kind; bare or inside apply account blocks - nested, around only some of the lines -, under --master-account, with included time-clock files, apply tag / apply year / year / alias directives) through freshly built ledger and the extracted model and comparing every register row, error line, error class and exit status, and the reported (scaled) figures of reg and bal - unit reached, exact quantity, printed text - with the unit walk of the model and display rounding; the oracle converts every figure shown back to seconds with the factors the journal declares.',
    level_note='Trusted: Coq kernel; extraction + OCaml driver and the python harness for the correspondence; boost ptime/gregorian arithmetic is modelled as integer seconds with day = t div 86400 (validated against python datetime by the correspondence); the fixed-column reading of i/o lines (textual.cc:467-523) is glue: a line that ends after the timestamp is a check-in to the account named "" or a check-out with no account (NULL); the harness joins master account, enclosing apply account arguments and the written name into the full name the model receives, and a regenerated table (Gen/ClockAccount.v, theorem clock_lines_resolve_alike) checks that both directives resolve the name with top_account(); an included file is a journal of its own (own time_log_t) whose rows the harness splices in at the include line.',
    design_ref='DESIGN.md section 7 C20',
    assumptions=['timestamps are well-formed `YYYY/MM/DD HH:MM:SS` between 1990 and 2060; one stream writes an hour below 10 with one digit (`9:00:00`, which the date parser accepts): the account is then read from column 22 on all the same and loses its first letter (F221; the column cut is glue of the harness, text_read)',
                 'account names and descriptions are plain words (no double spaces, tabs, `;` or `|`)',
                 'units above hours are declared as `C 1.00<unit> = <n><unit below>` (one larger unit per smaller one); commodity_t::time_colon_by_default is off',
                 '--now is given (a date: the close of still-open sessions happens at its midnight whatever year directives the file leaves open; an included file is closed at the clock of its include line, which is 31 December of a year / apply year directive open there in the including file)',
                 'alias directives are not applied to time-clock lines (observed, F110); an unclosed `year` directive is only written at the top of a file (inside a block its entry would answer the `end` of the block)',
                 'a check-out naming an account that is not open while exactly one other account is open closes that account (F12): observed and modelled, not judged by the oracle'],
)

EPOCH = datetime(1970, 1, 1)
DAY = 86400
ACCOUNTS = ['Work:A', 'Work:A:Sub', 'Proj:Beta', 'Home', 'Work:B', 'X', 'Proj:Deep:Gamma', 'X:Y:Z']
PAYEES = ['', '', 'meeting', 'code review', 'ACME corp', 'x']
ANCHORS = [datetime(2020, 2, 28, 20, 0, 0), datetime(2020, 2, 29, 23, 59, 0), datetime(2019, 12, 31, 22, 30, 0),
           datetime(2021, 2, 28, 21, 0, 0), datetime(2020, 4, 30, 23, 0, 0), datetime(2024, 2, 28, 23, 59, 58),
           datetime(2021, 1, 31, 12, 0, 0), datetime(2000, 2, 28, 23, 0, 0), datetime(2020, 3, 1, 0, 0, 0),
           datetime(2020, 12, 31, 23, 59, 59)]
FMT = ('%(date)|%(account)|%(verif_rational(amount))|%(payee)|%(code)|%(cleared)|%(checkin)|%(checkout)'
       '|%(beg_line)|%(virtual)|%(filename)'
       '|%(scrub(display_amount))|%(verif_rational(scrub(display_amount)))|%(scrub(display_total))|%(verif_rational(scrub(display_total)))\\n')
BAL_FMT = ('A|%(account)|%(scrub(display_total))|%(verif_rational(scrub(display_total)))|%(subcount)\\n'
           '%/T|%(scrub(display_total))|%(verif_rational(scrub(display_total)))\\n%/S\\n')
# units a journal may put above hours: (label, factor from the unit below, decimals it is declared with, directive)
UNIT_SETS = [
    [('d', F(24), 2, 'C 1.00d = 24h')],
    [('d', F(8), 2, 'C 1.00d = 8h')],
    [('d', F(8), 2, 'C 1.00d = 8h'), ('w', F(5), 3, 'C 1.000w = 5d')],
    [('d', F(24), 2, 'C 1.00d = 24h'), ('w', F(7), 2, 'C 1.00w = 7d')],
    [('d', F(15, 2), 1, 'C 1.0d = 7.5h')],
    [('d', F(24), 2, 'C 1.00d = 24h'), ('w', F(7), 1, 'C 1.0w = 7d'), ('q', F(13), 2, 'C 1.00q = 13w')],
    [('D', F(10), 0, 'C 1D = 10h')],
    [('d', F(6), 3, 'C 1.000d = 6h'), ('w', F(4), 0, 'C 1w = 4d')],
]
BUILTIN_UNITS = [('m', F(60), 1), ('h', F(60), 2)]


def secs(dt):
    return int((dt - EPOCH).total_seconds())


def stamp(t):
    return (EPOCH + timedelta(seconds=t)).strftime('%Y/%m/%d %H:%M:%S')


# ---- generation ------------------------------------------------------------------------------
def gap(rng, t, long=False):
    """seconds to the next event: aimed at the day boundary and at the sizes the property names"""
    if long and rng.random() < 0.5:
        return DAY * rng.randrange(1, 9) + rng.randrange(0, DAY)
    k = rng.random()
    to_mid = (t // DAY + 1) * DAY - t
    if k < 0.18:
        return rng.randrange(0, 60)
    if k < 0.36:
        return rng.randrange(60, 3600)
    if k < 0.58:
        return rng.randrange(3600, 20 * 3600)
    if k < 0.70:
        return to_mid + rng.choice([-1, 0, 0, 1, 1, 2]) if to_mid > 1 else to_mid
    if k < 0.76:
        return to_mid + DAY * rng.randrange(0, 3)        # exactly a midnight, 0-2 whole days later
    if k < 0.90:
        return DAY * rng.randrange(1, 5) + rng.randrange(-3600, 3600)
    if k < 0.95:
        return 0
    return rng.choice([1, DAY - 1, DAY, DAY + 1, 2 * DAY])


def gen_case(rng, malformed=None, small=False, long=False):
    """-> dict(events=[...], now=seconds).  An event: kind i/o, t, cap, acct (None = the line names
    no account: a check-in then goes to the account named "", a check-out passes NULL), desc."""
    nacc = rng.choice([1, 1, 2, 2, 3, 4])
    accts = rng.sample(ACCOUNTS, nacc)
    n = rng.choice([1, 2, 2, 3, 4, 5, 6, 8, 10, 12, 16, 20, 30, 45, 60]) if not small else rng.choice([1, 2, 2, 3, 4, 6, 9])
    style = rng.choice(['classic', 'named', 'named', 'mixed'])
    if malformed is None:
        pmal = 0.0
    else:
        pmal = rng.choice([0.05, 0.1, 0.25])
    if rng.random() < 0.7:
        t = secs(rng.choice(ANCHORS)) + rng.randrange(-7200, 7200)
    else:
        t = secs(datetime(rng.randrange(1995, 2050), rng.randrange(1, 13), rng.randrange(1, 29))) + rng.randrange(DAY)
    events = []
    opened = []       # (acct, t_in) in check-in order, as the generator intends it

    def ev(kind, t, acct, desc=''):
        events.append(dict(kind=kind, t=t, cap=rng.random() < 0.2, acct=acct, desc=desc))

    for k in range(n):
        t += gap(rng, t, long)
        names = [a for a, _ in opened]
        free = [a for a in accts if a not in names]
        bad = rng.random() < pmal
        if bad:
            kinds = ['double', 'out-none', 'earlier', 'mismatch', 'anon-multi']
            kind = malformed if (malformed in kinds and rng.random() < 0.7) else rng.choice(kinds)
            if kind == 'double' and opened:
                a = rng.choice(names)
                ev('i', t, a, rng.choice(PAYEES) if a is not None else '')
                continue
            if kind == 'out-none' and not opened:
                ev('o', t, rng.choice([None, rng.choice(accts)]))
                continue
            if kind == 'earlier' and opened:
                a, tin = rng.choice(opened)
                back = rng.choice([1, 1, 2, 60, 3600, DAY, DAY + 1])
                anon = a is None or (len(opened) == 1 and rng.random() < 0.5)
                ev('o', tin - back, None if anon else a)
                if anon and len(opened) > 1:
                    continue                       # fails for want of an account; nothing is dropped
                opened.remove((a, tin))            # ledger drops the check-in although the line fails
                continue
            if kind == 'mismatch' and opened:
                others = [a for a in ACCOUNTS if a not in names]   # (never the account named "": a line cannot spell it)
                ev('o', t, rng.choice(others), rng.choice(PAYEES))
                if len(opened) == 1:
                    opened.clear()                 # F12: the only open session is closed
                continue
            if kind == 'anon-multi' and len(opened) >= 2:
                ev('o', t, None)                   # "requires an account": nothing is closed
                continue
            # the chosen malformation does not apply to the current state: fall through
        want_in = (not opened) or (free and style != 'classic' and rng.random() < 0.45)
        if want_in and None not in names and rng.random() < 0.04:
            ev('i', t, None)                       # a check-in line that ends after the timestamp: account ""
            opened.append((None, t))
        elif want_in and free:
            a = rng.choice(free)
            ev('i', t, a, rng.choice(PAYEES))
            opened.append((a, t))
        elif opened:
            a, tin = rng.choice(opened)
            if a is None and len(opened) > 1:
                a, tin = rng.choice([x for x in opened if x[0] is not None])   # "" can only be closed when alone
            anon = a is None or (len(opened) == 1 and (style == 'classic' or (style == 'mixed' and rng.random() < 0.5)))
            ev('o', t, None if anon else a, '' if anon else rng.choice(PAYEES + ['', '']))
            opened.remove((a, tin))
    last = max(e['t'] for e in events)
    k = rng.random()
    if k < 0.75 or not opened:
        now = (last // DAY + rng.choice([1, 1, 1, 2, 5, 40])) * DAY
    elif k < 0.85:
        now = (last // DAY) * DAY                   # midnight of the last day: at or before the last events
    elif k < 0.95:
        now = (max(tin for _, tin in opened) // DAY) * DAY
    else:
        now = (min(e['t'] for e in events) // DAY - 1) * DAY
    return dict(events=events, now=now)


def gen_directed(rng):
    """the boundary shapes of the day-break loop and of the selection rule, written out"""
    base = secs(rng.choice(ANCHORS)) // DAY * DAY
    a, b = rng.sample(ACCOUNTS, 2)
    E = lambda kind, t, acct, desc='', cap=False: dict(kind=kind, t=t, cap=cap, acct=acct, desc=desc)
    k = rng.randrange(13)
    d = rng.randrange(1, 4)
    if k == 0:    # check-out exactly at a midnight, d days later
        tin = base + rng.choice([0, 1, 3600, DAY - 1])
        evs = [E('i', tin, a, 'p'), E('o', base + d * DAY, a)]
    elif k == 1:  # one second either side of midnight
        evs = [E('i', base + DAY - 1, a), E('o', base + DAY + rng.choice([-1, 0, 1]), a)]
    elif k == 2:  # zero-length session, also exactly at midnight
        tin = base + rng.choice([0, 5, DAY - 1])
        evs = [E('i', tin, a, 'z'), E('o', tin, rng.choice([a, None]))]
    elif k == 3:  # check-in at midnight, whole days
        evs = [E('i', base, a), E('o', base + d * DAY + rng.choice([0, 0, 1]), a, 'done', cap=True)]
    elif k == 4:  # two interleaved sessions, closed in either order, each crossing midnight
        evs = [E('i', base + 100, a, 'one'), E('i', base + 200, b), E('o', base + DAY + 5, rng.choice([a, b]), 'late'),
               E('o', base + 2 * DAY, None)]
    elif k == 5:  # description only on the check-out: moves to the payee
        evs = [E('i', base + 10, a, ''), E('o', base + 20, a, 'from out'), E('i', base + 30, a, 'mine'), E('o', base + 40, a, 'code')]
    elif k == 6:  # sessions left open at the end of the file
        evs = [E('i', base + 50, a, 'open one'), E('i', base + DAY + 50, b)]
    elif k == 7:  # check-out one second earlier than the check-in, then the account again
        evs = [E('i', base + 50, a), E('o', base + 49, a), E('o', base + 60, a)]
    elif k == 8:  # second check-in to the open account; the same name one level down is another account
        evs = [E('i', base + 50, 'Work:A'), E('i', base + 60, 'Work:A:Sub'), E('i', base + 70, 'Work:A'), E('o', base + 80, 'Work:A'),
               E('o', base + 90, 'Work:A:Sub')]
    elif k == 10:  # two open and a check-out that names no account: "requires an account", nothing is closed
        evs = [E('i', base + 1, a), E('i', base + 2, b), E('o', base + 50, None), E('o', base + 60, a), E('o', base + 70, None)]
    elif k == 11:  # a check-in line without account opens the account named ""; alone it is closed by a bare check-out
        evs = [E('i', base + 1, None), E('o', base + DAY + 1, None), E('i', base + DAY + 5, None), E('i', base + DAY + 6, None)][:rng.choice([2, 3, 4])]
    elif k == 12:  # the account "" next to a named one: it can only be closed once it is alone
        evs = [E('i', base + 1, None), E('i', base + 2, a, 'p'), E('o', base + 3, None), E('o', base + 4, a), E('o', base + DAY, None)]
    else:         # three open, closed from the middle; the last one by a line without account
        c = [x for x in ACCOUNTS if x not in (a, b)][0]
        evs = [E('i', base + 1, a), E('i', base + 2, b), E('i', base + 3, c), E('o', base + DAY + 3, b), E('o', base + DAY + 4, a),
               E('o', base + 3 * DAY, None)]
    now = (max(e['t'] for e in evs) // DAY + rng.choice([1, 2])) * DAY
    return dict(events=evs, now=now)


# ---- layout: the directives around the time-clock lines ---------------------------------------------
# A file is a list of line records.  `ev` lines carry the event; its `acct` is the FULL account the
# line is meant to name below the master account, `written` is what is spelled on the line: the
# enclosing `apply account` blocks supply the rest.  An include line carries the child file (a list
# of line records of its own: an included file is parsed by its own instance_t, with its own
# time_log_t, under the account that is current at the include line).
MASTERS = ['Top', 'Org:Unit']
TAGS = ['billable', 'team: blue']
ALIAS_LINES = ['alias W=Work:A', 'alias Work:B=Elsewhere:B', 'alias Home=Proj:Beta', 'alias A=Work:A', 'alias Sub=X']


def enclosures(name):
    """the `apply account` nestings under which a shorter spelling means `name`"""
    comps = name.split(':')
    out = [()]
    for j in range(1, len(comps)):
        headc = comps[:j]
        out.append((':'.join(headc),))
        if j >= 2:
            out.append(tuple(headc))
            out.append((headc[0], ':'.join(headc[1:])))
    return sorted(set(out))


def fits(ctx, name):
    pre = ':'.join(ctx)
    return name is None or not pre or name.startswith(pre + ':')


def lay_out(rng, events, fancy, children=(), yeardir=None):
    """events -> line records.  fancy = 0: bare lines only; 1: apply account blocks; 2: also noise
    (apply tag / apply year blocks, alias, comments).  children: [(position, child lines)]."""
    lines = []
    stack = []                    # ('account', arg) | ('tag', t) | ('year', y) | ('yeardir', y)

    def ctx_now():
        return tuple(a for k, a in stack if k == 'account')

    def pop():
        k, a = stack.pop()
        label = {'account': 'account', 'tag': 'tag', 'year': 'year'}[k]
        lines.append(dict(k='end', text=rng.choice(['end apply ' + label] * 4 + ['end apply', 'end'])))

    def goto(ctx):
        while ctx_now() != ctx[:len(ctx_now())]:
            pop()
        for a in ctx[len(ctx_now()):]:
            stack.append(('account', a))
            lines.append(dict(k='apply-account', arg=a, text='apply account ' + a))

    if yeardir is not None:
        stack.append(('yeardir', yeardir))
        lines.append(dict(k='year', y=yeardir, text=rng.choice(['year %d', 'Y %d', 'Y%d']) % yeardir))
    pending = sorted(children, key=lambda c: c[0])
    for i, e in enumerate(events + [None]):
        while pending and pending[0][0] <= i:
            _, child = pending.pop(0)
            if fancy and rng.random() < 0.6:
                goto(rng.choice([(), ('Proj',), ('Inc', 'Deep'), ('Work:A',)]))
            lines.append(dict(k='include', child=child))
        if e is None:
            break
        if fancy >= 2 and rng.random() < 0.15:
            r = rng.random()
            if r < 0.3:
                lines.append(dict(k='alias', text=rng.choice(ALIAS_LINES)))
            elif r < 0.45:
                lines.append(dict(k='comment', text='; ' + rng.choice(['note', 'i 2020/01/01 00:00:00 Not:A:Line'])))
            elif r < 0.7:
                t = rng.choice(TAGS)
                stack.append(('tag', t))
                lines.append(dict(k='apply-tag', text='apply tag ' + t))
            elif r < 0.8:
                y = rng.choice([1990, 2019, 2030, 2055])
                stack.append(('year', y))
                lines.append(dict(k='apply-year', y=y, text='apply year %d' % y))
            elif stack and stack[-1][0] in ('tag', 'year'):
                pop()
        name = e['acct']
        if not fancy or (name is None and rng.random() < 0.8):
            want = ()
        elif fits(ctx_now(), name) and (name is None or len(':'.join(ctx_now())) < len(name)) and rng.random() < 0.55:
            want = ctx_now()
        else:
            want = rng.choice(enclosures(name)) if name is not None else rng.choice([(), ('Proj',), ('Work', 'A')])
        goto(want)
        pre = ':'.join(want)
        e['written'] = None if name is None else (name[len(pre) + 1:] if pre else name)
        lines.append(dict(k='ev', e=e))
    if rng.random() < 0.8:
        while stack and stack[-1][0] != 'yeardir':
            pop()
    return lines


def narrow_applies(e):
    """the line writes its hour with one digit (`9:00:00`): its timestamp is 18 columns wide, not 19"""
    return bool(e.get('narrow')) and e['t'] % DAY < 36000


def text_read(e):
    """what clock_in_directive / clock_out_directive take for the account: the text from column 22 on
    (textual.cc: `string datetime(line, 2, 19)`, `skip_ws(line + 22)`), whatever the width of the timestamp -
    after an 18-column timestamp that is the written name without its first character"""
    w = e.get('written', e['acct'])
    if w is not None and narrow_applies(e):
        return w[1:]
    return w


def event_text(e):
    c = e['kind'].upper() if e['cap'] else e['kind']
    st = stamp(e['t'])
    if narrow_applies(e):
        st = st[:11] + st[12:]
    s = '%s %s' % (c, st)
    w = e.get('written', e['acct'])
    if w is not None:
        s += ' ' + w
        if e['desc']:
            s += '  ' + e['desc']
    return s


def render(case):
    """-> {file name: text}, main file name.  Children are numbered in the order of their include lines."""
    files = {}
    counter = [0]

    def one(lines, name):
        out = []
        for l in lines:
            if l['k'] == 'ev':
                out.append(event_text(l['e']))
            elif l['k'] == 'include':
                cname = 'tlinc%d.dat' % counter[0]
                counter[0] += 1
                l['file'] = cname
                one(l['child'], cname)
                out.append('include ' + cname)
            else:
                out.append(l['text'])
        files[name] = '\n'.join(out) + '\n'
    one(case['lines'], 'tl.dat')
    return files, 'tl.dat'


def year_end(y):
    return secs(datetime(y, 12, 31))


def resolve(case):
    """The glue of textual.cc around clock_in / clock_out, from the line records: the account of a line is
    top_account()->find_account(text) - the master account (--master-account, or for an included file the
    account current at the include line), the enclosing `apply account` arguments and the written name,
    joined by `:`; a bare check-in names "" below that, a bare check-out passes NULL.  The time at which
    a file's open sessions are closed is CURRENT_TIME() at its end, after every `year`/`apply year` entry
    the file itself left open has been undone (instance_t::parse): --now for the main file; for an
    included file the clock in force at its include line - 31 December of a year directive of the
    including file when one is open there.
    -> list of instances in include order: dict(id, file, evs (model events), now, at (line of each event),
       incs [(events before the include, line, child id)])"""
    insts = []
    state = dict(epoch=case['now'])

    def join(pre, w):
        return (pre + ':' + w) if pre else w

    def one(lines, fname, master, iid):
        inst = dict(id=iid, file=fname, evs=[], at=[], incs=[], now=None)
        insts.append(inst)
        stack = [('account', master)]
        ln = 0
        for l in lines:
            ln += 1
            k = l['k']
            top = [a for kk, a in stack if kk == 'account'][-1]
            if k == 'apply-account':
                stack.append(('account', join(top, l['arg'])))
            elif k == 'apply-tag':
                stack.append(('tag', None))
            elif k in ('apply-year', 'year'):
                stack.append(('year', state['epoch']))
                state['epoch'] = year_end(l['y'])
            elif k == 'end':
                kk, a = stack.pop()
                if kk == 'year':
                    state['epoch'] = a
            elif k == 'include':
                cid = 'c%d' % sum(1 for x in insts if x['id'] != 'p')
                inst['incs'].append((len(inst['evs']), ln, cid))
                one(l['child'], l['file'], top, cid)
            elif k == 'ev':
                e = l['e']
                w = text_read(e)
                if w is None:
                    acct = join(top, '').encode() if e['kind'] == 'i' else 'none'
                    if e['kind'] == 'i' and top:
                        acct = (top + ':').encode()
                else:
                    acct = join(top, w).encode()
                inst['evs'].append([e['kind'], e['t'], e['cap'], acct, e['desc'].encode()])
                inst['at'].append(ln)
        # the end of a file undoes every entry the file left on its apply stack, newest first, each year
        # entry restoring the clock it replaced (instance_t::parse): the clock is again what it was when
        # the file began, and that is when its open sessions are closed
        while len(stack) > 1:
            kk, a = stack.pop()
            if kk == 'year':
                state['epoch'] = a
        inst['now'] = state['epoch']
    one(case['lines'], 'tl.dat', case.get('master') or '', 'p')
    return insts


def expected(insts, outs):
    """compose the model's per-instance results into the canonical line of the whole run"""
    res = {i['id']: o for i, o in zip(insts, outs)}
    parent = insts[0]
    if any(o.startswith('E') for o in outs):
        labels, pclose = [], '-'
        for i in insts:
            o = res[i['id']]
            if not o.startswith('E'):
                continue
            body, close = o[2:].split(';close:')
            for it in (body.split(',') if body else []):
                labels.append(it if i['id'] == 'p' else '%s.%s' % (i['id'], it))
            if close != '-':
                if i['id'] == 'p':
                    pclose = close
                else:
                    labels.append('inc-%s:%s' % (i['id'], close))
        return 'E %s;close:%s' % (','.join(sorted(labels)), pclose)
    rows = []
    prow = [x.split('|', 1) for x in res['p'][2:].split(';')] if len(res['p']) > 2 else []
    incs = list(parent['incs'])
    for idx, rest in prow:
        while incs and incs[0][0] <= int(idx):
            cid = incs.pop(0)[2]
            rows += [x.split('|', 1)[1] for x in res[cid][2:].split(';')] if len(res[cid]) > 2 else []
        rows.append(rest)
    for _, _, cid in incs:
        rows += [x.split('|', 1)[1] for x in res[cid][2:].split(';')] if len(res[cid]) > 2 else []
    return 'R ' + ';'.join(rows)


# ---- the implementation --------------------------------------------------------------------------
ERR_CLASS = [('without a check-in', 'NoCheckin'), ('requires an account', 'NeedAccount'),
             ('does not match any current check-ins', 'NoMatch'), ('less than corresponding check-in', 'Negative'),
             ('double check-in', 'Double')]


def classify(msg):
    for pat, c in ERR_CLASS:
        if pat in msg:
            return c
    return 'Other(%s)' % msg[:60]


def run_impl(path, now, db, master=None):
    args = ['-f', path, 'reg', '--empty', '--now', (EPOCH + timedelta(seconds=now)).strftime('%Y/%m/%d'), '--format', FMT]
    if db:
        args.append('--day-break')
    if master:
        args += ['--master-account', master]
    for attempt in range(5):
        try:
            st, out, err = lib.run_ledger(args, timeout=10 if attempt == 0 else 90)
        except OSError:          # the binary is being re-linked by a concurrent build
            if attempt == 4:
                raise
            time.sleep(2)
            continue
        if st == 'timeout' and attempt == 0:
            continue             # a loaded machine, or a real hang: once more with a long limit before saying so
        if isinstance(st, int) and st > 0 and b'Error' not in err and attempt < 4:
            time.sleep(2)        # no ledger message at all (the loader failed on a library being replaced): once more
            continue
        break
    rows = []
    for l in out.decode('utf-8', 'replace').split('\n'):
        if not l:
            continue
        f = l.split('|')
        if len(f) != 15:
            rows.append(dict(bad=l))
            continue
        m = re.fullmatch(r'A:73:(-?\d+)/(\d+):\d+:[01]', f[2])
        rows.append(dict(date=f[0], acct=f[1], secs=(int(m.group(1)) if m and m.group(2) == '1' else None), amount=f[2],
                         payee=f[3], code=f[4], cleared=f[5], cin=f[6], cout=f[7], line=f[8], virtual=f[9],
                         file=os.path.basename(f[10]), da=f[11], dax=f[12], dt=f[13], dtx=f[14]))
    errs, close_err = [], None
    pending = None
    for l in err.decode('utf-8', 'replace').split('\n'):
        m = re.match(r'While parsing file "([^"]*)", line (\d+):', l)
        if m:
            pending = (os.path.basename(m.group(1)), int(m.group(2)))
        elif l.startswith('Error: '):
            if pending is None:
                close_err = classify(l[7:])
            else:
                errs.append((pending[0], pending[1], classify(l[7:])))
            pending = None
    return dict(status=st, rows=rows, errs=errs, close=close_err)


def run_bal(path, now, db, master=None):
    """`bal --flat --empty`: -> (status, [(account, shown text, exact unreduced value)], total (text, exact) or None,
    {account: %(subcount), the number of postings the account itself holds})"""
    args = ['-f', path, 'bal', '--flat', '--empty', '--now', (EPOCH + timedelta(seconds=now)).strftime('%Y/%m/%d'), '--format', BAL_FMT]
    if db:
        args.append('--day-break')
    if master:
        args += ['--master-account', master]
    for attempt in range(5):
        try:
            st, out, err = lib.run_ledger(args, timeout=10 if attempt == 0 else 90)
        except OSError:
            if attempt == 4:
                raise
            time.sleep(2)
            continue
        if st == 'timeout' and attempt == 0:
            continue
        if isinstance(st, int) and st > 0 and b'Error' not in err and attempt < 4:
            time.sleep(2)
            continue
        break
    accts, total, held = [], None, {}
    for l in out.decode('utf-8', 'replace').split('\n'):
        f = l.split('|')
        if f[0] == 'A' and len(f) == 5:
            accts.append((f[1], f[2], f[3]))
            held[f[1]] = int(f[4]) if re.fullmatch(r'-?\d+', f[4]) else None
        elif f[0] == 'T' and len(f) == 3:
            total = (f[1], f[2])
    return st, accts, total, held


def exact_of(x):
    """verif_rational text -> 'unithex:num/den'"""
    m = re.fullmatch(r'A:([0-9a-f]*):(-?\d+)/(\d+):\d+:[01]', x)
    return '%s:%s/%s' % (m.group(1), m.group(2), m.group(3)) if m else 'unreadable(%s)' % x


def shown_text(u):
    """model answer 'labelhex:num/den|scaled:prec' -> (the text ledger prints, 'labelhex:num/den')"""
    ex, sc = u.split('|')
    n, p = sc.split(':')
    n, p = int(n), int(p)
    if ex.split(':')[1].startswith('0/'):
        return None, ex              # a zero amount prints as `0` or `0s` depending on the report: text not compared
    digits = str(abs(n)).rjust(p + 1, '0')
    txt = ('-' if n < 0 else '') + (digits[:-p] + '.' + digits[-p:] if p else digits)
    return txt + bytes.fromhex(ex.split(':')[0]).decode(), ex


def chain_sx(units):
    return [[l.encode(), f.numerator, f.denominator, p] for l, f, p in BUILTIN_UNITS + [(u[0], u[1], u[2]) for u in units]]


def day_number(t):
    """'YYYY/MM/DD' -> days since 1970-01-01 (ValueError when it is not a date)"""
    if len(t) != 10 or t[4] != '/' or t[7] != '/':
        raise ValueError(t)
    return date(int(t[0:4]), int(t[5:7]), int(t[8:10])).toordinal() - 719163


def stamp_secs(t):
    """'YYYY/MM/DD HH:MM:SS' -> seconds since 1970-01-01 00:00:00"""
    if len(t) != 19 or t[10] != ' ' or t[13] != ':' or t[16] != ':':
        raise ValueError(t)
    h, mi, se = int(t[11:13]), int(t[14:16]), int(t[17:19])
    if not (0 <= h < 24 and 0 <= mi < 60 and 0 <= se < 60):
        raise ValueError(t)
    return day_number(t[:10]) * DAY + h * 3600 + mi * 60 + se


def hexs(s):
    return s.encode().hex() if s else '-'


def impl_canon(r, insts):
    """the same line `expected` builds from the model"""
    if r['status'] != 0 or r['errs'] or r['close']:
        where = {}
        for i in insts:
            for k, ln in enumerate(i['at']):
                where[(i['file'], ln)] = ('%d' % k) if i['id'] == 'p' else '%s.%d' % (i['id'], k)
            for _, ln, cid in i['incs']:
                where[(i['file'], ln)] = 'inc-' + cid
        labels = sorted('%s:%s' % (where.get((f, ln), '%s@%d' % (f, ln)), c) for f, ln, c in r['errs'])
        extra = '' if not r['rows'] else ';partial-report(%d rows)' % len(r['rows'])
        want_status = 1 if r['close'] else min(len(r['errs']), 255)
        if r['status'] != want_status:
            extra += ';status=%s' % (r['status'],)
        return 'E %s;close:%s%s' % (','.join(labels), r['close'] or '-', extra)
    out = []
    for w in r['rows']:
        if 'bad' in w or w['secs'] is None:
            out.append('unreadable(%s)' % (w.get('bad') or w['amount']))
            continue
        try:
            d = day_number(w['date'])
            ci = stamp_secs(w['cin'])
            co = stamp_secs(w['cout'])
        except ValueError:
            out.append('unreadable(%s %s %s)' % (w['date'], w['cin'], w['cout']))
            continue
        out.append('%d|%s|%d|%s|%s|%s|%d|%d' % (d, hexs(w['acct']), w['secs'], hexs(w['payee']), hexs(w['code']),
                                                 '1' if w['cleared'] == 'true' else '0', ci, co)
                   + ('' if w['virtual'] == 'true' else '|not-virtual'))
    return 'R ' + ';'.join(out)


# ---- oracle: the property text on what ledger printed ----------------------------------------------
EV_RE = re.compile(r'([ioIO]) (\d{4}/\d\d/\d\d \d?\d:\d\d:\d\d)(?: (.*?))?(?:  (.*))?$')


def read_files(files, main, master):
    """The journal text as a reader of the manual understands it -> tokens in reading order:
    ('begin', file) / ('end', file) around each file, ('ev', file, line, kind, when, full account name).
    The full name of the account a line names: the master account, the arguments of the enclosing
    `apply account` blocks (an included file starts under the account current at its include line) and
    the name written on the line, joined by `:`.  None = the line names no account."""
    toks = []
    has_year = [False]

    def join(pre, w):
        return (pre + ':' + w) if pre else w

    def walk(fname, pre0):
        toks.append(('begin', fname))
        blocks = []                # one entry per open `apply`: the account prefix inside it
        for ln, line in enumerate(files[fname].split('\n')[:-1], 1):
            pre = blocks[-1] if blocks else pre0
            m = EV_RE.match(line)
            if m:
                when = datetime.strptime(m.group(2), '%Y/%m/%d %H:%M:%S')
                w = m.group(3)
                if w is None:
                    full = (pre + ':' if pre else '') if m.group(1) in 'iI' else None
                else:
                    full = join(pre, w)
                toks.append(('ev', fname, ln, m.group(1).lower(), when, full))
            elif line.startswith('apply account '):
                blocks.append(join(pre, line[len('apply account '):].strip()))
            elif line.startswith('apply '):
                blocks.append(pre)
                has_year[0] = has_year[0] or line.startswith('apply year')
            elif line == 'end' or line.startswith('end '):
                if blocks:
                    blocks.pop()
            elif line.startswith('include '):
                walk(line[len('include '):].strip(), pre)
            elif line.startswith('year ') or line.startswith('Y'):
                has_year[0] = True
        toks.append(('end', fname))
    walk(main, master or '')
    return toks, has_year[0]


NARROW_RE = re.compile(r'[ioIO] \d{4}/\d\d/\d\d \d:\d\d:\d\d( |$)')


def oracle(files, main, master, now_s, r, db, bal=None):
    """-> (list of (key, desc, observed, required), list of notes).  Written from the statement:
    per full account name, a check-in is matched by the next check-out for that account in the same file
    (a check-out line that names no account belongs to the only open check-in); sessions, dates and
    days by datetime; the time reported for a full account is the sum of its sessions."""
    viol, notes = [], []
    toks, has_year = read_files(files, main, master)
    opened_stack = []
    sessions = []         # (account, t_in, t_out, file, check-in line)
    still = []            # (account, t_in, file, line)
    first_error = None
    for tk in toks:
        if tk[0] == 'begin':
            opened_stack.append({})
            continue
        if tk[0] == 'end':
            for a, (tin, f, l) in opened_stack.pop().items():
                still.append((a, tin, f, l))
            continue
        _, f, ln, kind, when, a = tk
        opened = opened_stack[-1]
        if kind == 'i':
            if a in opened:
                first_error = (f, ln, 'second check-in to an open account')
                break
            opened[a] = (when, f, ln)
            continue
        if a is None:
            if not opened:
                first_error = (f, ln, 'check-out with no open check-in')
                break
            if len(opened) > 1:
                notes.append('a check-out naming no account while several accounts are open: the statement does not say which session it ends (ledger: "checking out requires an account")')
                return viol, notes
            a = next(iter(opened))
        elif a not in opened:
            if len(opened) == 1:
                notes.append('F12 form: a check-out naming an account that is not open while exactly one other account is open (ledger ends that session)')
                return viol, notes
            first_error = (f, ln, 'check-out with no open check-in')
            break
        tin, fi, lin = opened.pop(a)
        if when < tin:
            first_error = (f, ln, 'check-out earlier than its check-in')
            break
        sessions.append((a, tin, when, fi, lin))
    if r['status'] == 'timeout' or (isinstance(r['status'], int) and r['status'] < 0):
        viol.append(('no-result:%s' % ('timeout' if r['status'] == 'timeout' else 'signal'), 'ledger gives no result on a time-clock file',
                     'status %s' % (r['status'],), 'a report or an error message'))
        return viol, notes
    failed = r['status'] != 0 or bool(r['errs']) or r['close'] is not None
    if first_error:
        f, ln, what = first_error
        if not failed:
            viol.append(('error-accepted:' + what.replace(' ', '-'), '%s line %d is a %s but ledger reports success' % (f, ln, what),
                         'status 0, %d rows' % len(r['rows']), 'an error'))
        elif (f, ln) not in [(x, y) for x, y, _ in r['errs']]:
            viol.append(('error-elsewhere:' + what.replace(' ', '-'), '%s line %d is a %s but the error is reported for other lines' % (f, ln, what),
                         str(r['errs']), 'an error at %s line %d' % (f, ln)))
        return viol, notes
    now = EPOCH + timedelta(seconds=now_s)
    if failed:
        ev_lines = {(t[1], t[2]) for t in toks if t[0] == 'ev'}
        at_lines = [x for x in r['errs'] if (x[0], x[1]) in ev_lines]
        if not at_lines and (any(tin > now for _, tin, _, _ in still) or (has_year and any(fi != main for _, _, fi, _ in still))):
            return viol, notes        # sessions left open that begin after the closing time: not the statement's subject
        viol.append(('error-spurious', 'no line is a check-out without check-in, a second check-in or an early check-out, but ledger fails',
                     '%s close=%s' % (r['errs'], r['close']), 'success'))
        return viol, notes
    rows = r['rows']
    if any('bad' in w or w['secs'] is None for w in rows):
        viol.append(('row-unreadable', 'a register row has no whole number of seconds', str(rows)[:300], 'seconds'))
        return viol, notes
    by_line = {}
    for w in rows:
        by_line.setdefault((w['file'], int(w['line'])), []).append(w)
    for a, tin, tout, fi, lin in sessions:
        mine = by_line.get((fi, lin), [])
        whole = int((tout - tin).total_seconds())
        tag = 'daybreak' if db else 'session'
        if any(w['acct'] != a for w in mine):
            viol.append((tag + ':account', 'session of %s line %d posts to another account' % (fi, lin), str(sorted({w['acct'] for w in mine})), a))
            continue
        if not db:
            if len(mine) != 1:
                viol.append(('session:count', 'session of %s line %d (%s) has %d postings' % (fi, lin, a, len(mine)), len(mine), 1))
            elif mine[0]['secs'] != whole:
                viol.append(('session:seconds', 'session %s .. %s' % (tin, tout), mine[0]['secs'], whole))
            elif mine[0]['date'] != tin.strftime('%Y/%m/%d'):
                viol.append(('session:date', 'session %s .. %s is dated %s' % (tin, tout, mine[0]['date']), mine[0]['date'], tin.strftime('%Y/%m/%d')))
            continue
        # one posting per calendar day touched, each the part of the session inside that day
        want = {}
        d = tin.date()
        while datetime.combine(d, datetime.min.time()) < tout:
            lo = max(tin, datetime.combine(d, datetime.min.time()))
            hi = min(tout, datetime.combine(d + timedelta(days=1), datetime.min.time()))
            if hi > lo:
                want[d.strftime('%Y/%m/%d')] = int((hi - lo).total_seconds())
            d += timedelta(days=1)
        got = {}
        for w in mine:
            got[w['date']] = got.get(w['date'], 0) + w['secs']
        if whole == 0 and got == {tin.strftime('%Y/%m/%d'): 0}:
            got = {}              # a session of no seconds touches no day; one 0s posting on its day is as good
        if sum(w['secs'] for w in mine) != whole:
            viol.append(('daybreak:sum', 'pieces of session %s .. %s sum to %d' % (tin, tout, sum(w['secs'] for w in mine)),
                         sum(w['secs'] for w in mine), whole))
        elif len(mine) != len(got) and not (whole == 0 and len(mine) == 1):
            viol.append(('daybreak:two-pieces-one-day', 'session %s .. %s' % (tin, tout), str(sorted((w['date'], w['secs']) for w in mine)), str(want)))
        elif got != want:
            viol.append(('daybreak:pieces', 'session %s .. %s' % (tin, tout), str(sorted(got.items())), str(sorted(want.items()))))
        if whole == 0 and not mine:
            notes.append('a zero-second session yields no posting under --day-break (one 0s posting without it)')
    # the time reported for a full account is the sum of its sessions (still-open ones end at --now;
    # with a year directive in the file, at the end instant ledger shows for them)
    totals = {}
    for w in rows:
        totals[w['acct']] = totals.get(w['acct'], 0) + w['secs']
    want = {}
    for a, tin, tout, _, _ in sessions:
        want[a] = want.get(a, 0) + int((tout - tin).total_seconds())
    for a, tin, fi, lin in still:
        end = now
        if has_year and fi != main:       # an included file is closed at the clock of its include line
            mine = by_line.get((fi, lin), [])
            ends = [datetime.strptime(w['cout'], '%Y/%m/%d %H:%M:%S') for w in mine]
            end = max(ends) if ends else tin
        if any(w['acct'] != a for w in by_line.get((fi, lin), [])):
            viol.append(('open-session:account', 'the session left open at %s line %d posts to another account' % (fi, lin),
                         str(sorted({w['acct'] for w in by_line.get((fi, lin), [])})), a))
        want[a] = want.get(a, 0) + int((end - tin).total_seconds())
    for a in sorted(set(totals) | set(want)):
        if totals.get(a, 0) != want.get(a, 0):
            viol.append(('account-total', 'time reported for %s' % a, totals.get(a, 0), want.get(a, 0)))
    # the REPORTED time: what reg and bal show by default is scaled to larger units (s -> m -> h, then the
    # units the journal declares with `C 1.00d = 24h`); read back in its unit and converted to seconds with
    # the declared factors it is the sum of the sessions, to within half a unit of the decimals shown
    unit = {'s': F(1), 'm': F(60), 'h': F(3600)}
    for _ in range(4):             # a unit may be declared before the one it is built on
        for fname in files:
            for line in files[fname].split('\n'):
                m = re.fullmatch(r'C (\d+(?:\.\d+)?)([A-Za-z]+) = (\d+(?:\.\d+)?)([A-Za-z]+)', line)
                if m and m.group(4) in unit:
                    unit[m.group(2)] = F(m.group(3)) * unit[m.group(4)] / F(m.group(1))

    SHOWN = re.compile(r'(-?)(\d+)(?:\.(\d+))?([A-Za-z]+)')

    def off(text, secs_wanted):
        if text == '0':
            return None if secs_wanted == 0 else 'is nothing'
        m = SHOWN.fullmatch(text)
        if not m or m.group(4) not in unit:
            return 'not a number and a known unit'
        f = unit[m.group(4)]
        frac = m.group(3) or ''
        v = int(m.group(2) + frac) * (-1 if m.group(1) else 1)      # the figure shown, times 10^decimals
        scale = 10 ** len(frac)
        # |v/scale * f - wanted| <= f / (2 scale), in integers
        if 2 * abs(v * f.numerator - secs_wanted * scale * f.denominator) <= f.numerator:
            return None
        shown = F(v, scale) * f
        return 'is %s s, off by %s s (half a unit shown is %s s)' % (float(shown), float(abs(shown - secs_wanted)), float(f / (2 * scale)))
    run_total = 0
    for w in rows:
        run_total += w['secs']
        e = off(w['da'], w['secs'])
        if e:
            viol.append(('reported:reg-amount', 'a posting of %d s is shown as %s' % (w['secs'], w['da']), '%s %s' % (w['da'], e), '%d s' % w['secs']))
            break
        e = off(w['dt'], run_total)
        if e:
            viol.append(('reported:reg-total', 'the running total of %d s is shown as %s' % (run_total, w['dt']), '%s %s' % (w['dt'], e), '%d s' % run_total))
            break
    if bal is not None and bal[0] == 0:
        for a, txt, _ in bal[1]:
            fam = sum(v for b, v in want.items() if b == a or b.startswith(a + ':'))     # bal: an account and those below it
            e = off(txt, fam)
            if e:
                viol.append(('reported:bal-account', 'the sessions of %s and below sum to %d s, bal shows %s' % (a, fam, txt), '%s %s' % (txt, e), '%d s' % fam))
                break
        if bal[2] is not None:
            e = off(bal[2][0], sum(want.values()))
            if e:
                viol.append(('reported:bal-total', 'all sessions sum to %d s, bal shows %s' % (sum(want.values()), bal[2][0]), '%s %s' % (bal[2][0], e), '%d s' % sum(want.values())))
        shown = {a for a, _, _ in bal[1]}
        for a in want:
            if want[a] and a not in shown:
                viol.append(('reported:bal-missing', 'bal does not list %s' % a, str(sorted(shown)), a))
        # "produces ONE posting to that account" (one per calendar day touched under --day-break): the number of
        # postings an account holds, as bal's %(subcount) (and `stats`, %(count), %(account.count)) reports it, is the
        # number of postings its sessions produced - one per session, or one per day touched.  The rows of each
        # session were counted above; here the account's own count is read.
        given = {}
        for a, tin, tout, fi, lin in sessions:
            given[a] = given.get(a, 0) + (len(by_line.get((fi, lin), [])) if db else 1)
        for a, tin, fi, lin in still:
            given[a] = given.get(a, 0) + (len(by_line.get((fi, lin), [])) if db else 1)
        for a in sorted(given):
            h = bal[3].get(a)
            if h is None or h == given[a]:
                continue
            kind = 'each-posting-held-twice' if h == 2 * given[a] else 'other'
            viol.append(('posting-count:' + kind, 'the sessions of %s produce %d posting(s); the account holds %d (bal %%(subcount); stats and %%(count) count the same list)'
                         % (a, given[a], h), h, given[a]))
            break
    known = {(fi, lin) for _, _, _, fi, lin in sessions} | {(fi, lin) for _, _, fi, lin in still}
    for key in by_line:
        if key not in known:
            viol.append(('posting-without-session', 'a posting is attributed to %s line %d, which opens no session' % key, str(by_line[key])[:200], 'none'))
    # the class of the input: a line whose timestamp is not 19 columns wide (an hour written with one digit)
    if viol and any(NARROW_RE.match(l) for f_ in files for l in files[f_].split('\n')):
        viol = [('narrow-timestamp:' + k_, d_ + ' [the file has an i/o line with a one-digit hour]', o_, q_) for k_, d_, o_, q_ in viol]
    return viol, notes


# ---- the run ---------------------------------------------------------------------------------------
def write_files(ctx, files):
    for name, text in files.items():
        open(ctx.path(name), 'w').write(text)


def judge(ctx, case, db):
    files, main = render(case)
    write_files(ctx, files)
    r = run_impl(ctx.path(main), case['now'], db, case.get('master'))
    bal = run_bal(ctx.path(main), case['now'], db, case.get('master')) if r['status'] == 0 else None
    return oracle(files, main, case.get('master'), case['now'], r, db, bal)[0], files


def drop_lines(lines, lo, width):
    """the line records without the window [lo, lo+width) of the flattened (parent and children) list"""
    pos = [0]

    def go(ls):
        out = []
        for l in ls:
            here = pos[0]
            pos[0] += 1
            keep = not (lo <= here < lo + width)
            if l['k'] == 'include':
                child = go(l['child'])
                if keep:
                    out.append(dict(l, child=child))
            elif keep:
                out.append(l)
        return out
    res = go(lines)
    return res, pos[0]


def shrink(ctx, case, db, key):
    """drop windows of lines greedily while the oracle still reports `key`"""
    cur = dict(case)
    for width in (16, 8, 4, 2, 1):
        i = 0
        while True:
            cand_lines, total = drop_lines(cur['lines'], i, width)
            if i >= total:
                break
            cand = dict(cur, lines=cand_lines)
            if cand_lines and any(v[0] == key for v in judge(ctx, cand, db)[0]):
                cur = cand
            else:
                i += 1
    return cur


def features(case, insts, model_line):
    f = set()
    evs = [l['e'] for i in [case['lines']] for l in i if l['k'] == 'ev']
    kinds = set()

    def scan(ls, depth):
        for l in ls:
            kinds.add(l['k'])
            if l['k'] == 'include':
                kinds.add('child-blocks' if any(x['k'] == 'apply-account' for x in l['child']) else 'child-plain')
                scan(l['child'], depth + 1)
    scan(case['lines'], 0)
    for k in sorted(kinds & {'apply-account', 'apply-tag', 'apply-year', 'year', 'alias', 'include', 'conv'}):
        f.add('directive:' + k)
    if case.get('master'):
        f.add('directive:--master-account')
    # a session whose check-in and check-out are spelled differently (one inside a block, one outside)
    spelled = {}
    for e in evs:
        if e['acct'] is not None and e.get('written') is not None:
            spelled.setdefault(e['acct'], set()).add((e['kind'], e['written']))
    if any(len({w for _, w in v}) > 1 and len({k for k, _ in v}) > 1 for v in spelled.values()):
        f.add('same-account-spelled-two-ways')
    if any(e['kind'] == 'i' and e.get('written') is not None and e['written'] != e['acct'] for e in evs):
        f.add('check-in-inside-block')
    if any(e['kind'] == 'o' and e['acct'] is None for e in evs):
        f.add('anon-out')
    if any(e['kind'] == 'i' and e['acct'] is None for e in evs):
        f.add('anon-in')
    if model_line.startswith('R'):
        rows = [x.split('|') for x in model_line[2:].split(';')] if len(model_line) > 2 else []
        f.add('rows:%s' % ('0' if not rows else '1' if len(rows) == 1 else '2-9' if len(rows) < 10 else '10+'))
        if any(int(x[7]) % DAY == 0 for x in rows):
            f.add('piece-ends-at-midnight')
        if any(x[2] == '0' for x in rows):
            f.add('zero-seconds')
        if any(int(x[6]) // DAY != (int(x[7]) - 1) // DAY and x[2] != '0' for x in rows):
            f.add('row-spans-days')
    else:
        for c in re.findall(r':([A-Za-z]+)', model_line):
            f.add('err:' + c)
    return f


def dress(rng, case, plain=False):
    """give a case (events, now) its directives: blocks, noise, master account, included files"""
    k = rng.random()
    fancy = 0 if (plain or k < 0.35) else (1 if k < 0.7 else 2)
    children = []
    if fancy and rng.random() < 0.25:
        for _ in range(rng.choice([1, 1, 2])):
            sub = gen_case(rng, malformed=('any' if rng.random() < 0.15 else None), small=True)
            cf = rng.choice([0, 1, 1, 2])
            children.append((rng.randrange(len(case['events']) + 1), lay_out(rng, sub['events'], cf)))
    yeardir = None
    if fancy >= 2 and rng.random() < 0.2:
        yeardir = rng.choice([2019, 2031, 2056, 1999])
    case['lines'] = lay_out(rng, case['events'], fancy, children, yeardir)
    units = case.get('units')
    if units is None:
        units = rng.choice(UNIT_SETS) if rng.random() < 0.3 else []
    case['units'] = units
    for j, u in enumerate(units):
        # anywhere in the file will do; mostly at its top, in order (a unit must exist before the next is built on it)
        at = j if rng.random() < 0.7 else max(j, min(len(case['lines']), j + rng.randrange(0, 4)))
        case['lines'].insert(at, dict(k='conv', text=u[3]))
    case['master'] = rng.choice(MASTERS) if (not plain and rng.random() < 0.2) else None
    return case


def gen_narrow(rng):
    """sequential sessions (never two open at once) whose check-in lines - and some check-out lines - write
    an hour below 10 with one digit, as ledger's date parser accepts it: `i 2021/06/01 9:00:00 Work:A`"""
    accts = rng.sample([a for a in ACCOUNTS if len(a) >= 2 and a[1].isalnum()], rng.choice([1, 2]))
    t = secs(datetime(rng.randrange(1995, 2050), rng.randrange(1, 13), rng.randrange(1, 29))) + rng.randrange(0, 36000)
    events = []
    for _ in range(rng.choice([1, 1, 2, 3])):
        a = rng.choice(accts)
        events.append(dict(kind='i', t=t, cap=False, acct=a, desc=rng.choice(PAYEES), narrow=True))
        t += rng.choice([1, 59, 600, 3600, 7200, DAY, DAY + 5])
        events.append(dict(kind='o', t=t, cap=rng.random() < 0.2, acct=rng.choice([None, a]), desc='', narrow=rng.random() < 0.5))
        t = (t // DAY + 1) * DAY + rng.randrange(0, 36000)
    if rng.random() < 0.2:
        events.pop()                 # the last session stays open: closed at --now
    return dict(events=events, now=(t // DAY + 1) * DAY, units=[])


def gen_blocks_directed(rng):
    """time-clock lines directly inside `apply account` blocks: one session, interleaved sessions, a session
    checked in inside a block and out outside it (and the reverse), nested blocks, an included file"""
    base = secs(rng.choice(ANCHORS)) // DAY * DAY
    E = lambda kind, t, acct, desc='', cap=False: dict(kind=kind, t=t, cap=cap, acct=acct, desc=desc)
    L = lambda e, w: dict(k='ev', e=dict(e, written=w))
    A = lambda a: dict(k='apply-account', arg=a, text='apply account ' + a)
    END = dict(k='end', text='end apply account')
    k = rng.randrange(10)
    Y = lambda kind, y: dict(k=kind, y=y, text=('apply year %d' if kind == 'apply-year' else rng.choice(['year %d', 'Y %d', 'Y%d'])) % y)
    if k == 0:      # one session inside a block
        lines = [A('Proj'), L(E('i', base + 3600, 'Proj:Work:A', 'p'), 'Work:A'), L(E('o', base + 9000, 'Proj:Work:A'), 'Work:A'), END]
    elif k == 1:    # two interleaved sessions inside a block, one crossing midnight
        lines = [A('Proj'), L(E('i', base + 100, 'Proj:Work:A'), 'Work:A'), L(E('i', base + 200, 'Proj:Work:B'), 'Work:B'),
                 L(E('o', base + 5000, 'Proj:Work:A'), 'Work:A'), L(E('o', base + DAY + 900, 'Proj:Work:B'), 'Work:B'), END]
    elif k == 2:    # checked in inside the block, out after it with the full name; two sessions open
        lines = [A('Proj'), L(E('i', base + 100, 'Proj:Work:A'), 'Work:A'), L(E('i', base + 200, 'Proj:Home'), 'Home'), END,
                 L(E('o', base + 5000, 'Proj:Work:A'), 'Proj:Work:A'), L(E('o', base + 6000, 'Proj:Home'), 'Proj:Home')]
    elif k == 3:    # checked in outside with the full name, out inside nested blocks
        lines = [L(E('i', base + 100, 'Proj:Deep:Gamma', 'g'), 'Proj:Deep:Gamma'), L(E('i', base + 150, 'Home'), 'Home'), A('Proj'), A('Deep'),
                 L(E('o', base + DAY, 'Proj:Deep:Gamma'), 'Gamma'), END, END, L(E('o', base + DAY + 5, 'Home'), 'Home')]
    elif k == 4:    # the same spelling inside and outside a block names two accounts
        lines = [L(E('i', base + 100, 'Work:A'), 'Work:A'), A('Proj'), L(E('i', base + 200, 'Proj:Work:A'), 'Work:A'),
                 L(E('o', base + 300, 'Proj:Work:A'), 'Work:A'), END, L(E('o', base + 400, 'Work:A'), 'Work:A')]
    elif k == 6:    # a year directive left open at the end of the file: the open session still ends at --now
        lines = [Y('year', rng.choice([1999, 2019, 2031, 2056])), L(E('i', base + 100, 'Work:A', 'p'), 'Work:A'), L(E('o', base + 4000, 'Work:A'), 'Work:A'),
                 L(E('i', base + 5000, 'Work:A'), 'Work:A')]
    elif k == 7:    # apply year and an apply account above it, both left open, a session open: closed at --now all the same
        lines = [Y('apply-year', rng.choice([1990, 2019, 2030])), A('Proj'), L(E('i', base + 100, 'Proj:Work:A'), 'Work:A'),
                 L(E('i', base + 200, 'Proj:Home'), 'Home'), L(E('o', base + 300, 'Proj:Home'), 'Home')]
        if rng.random() < 0.5:
            lines.insert(1, Y('apply-year', 2055))
    elif k == 8:    # an included file read under an open year directive is closed at that year's end; its own open
        #             year directive ends with it; the including file is closed at --now
        child = [Y('apply-year', rng.choice([1990, 2019])), L(E('i', base + 100, 'Work:A'), 'Work:A'), L(E('i', base + 200, 'Home'), 'Home'),
                 L(E('o', base + 300, 'Work:A'), 'Work:A')]
        lines = [Y('apply-year', rng.choice([2031, 2056, 1999])), dict(k='include', child=child), L(E('i', base + 50, 'Work:B'), 'Work:B')]
        if rng.random() < 0.5:
            lines.insert(2, dict(k='end', text='end apply year'))
    elif k == 9:    # two year directives at the top, both open at the end
        lines = [Y('year', 2031), Y('year', 2019), L(E('i', base + 100, 'Home'), 'Home')]
    else:           # an included file with clock lines, included from inside a block; two sessions open in it
        child = [L(E('i', base + 100, 'Work:A'), 'Work:A'), L(E('i', base + 200, 'Home'), 'Home'), L(E('o', base + 300, 'Work:A'), 'Work:A')]
        lines = [L(E('i', base + 50, 'Work:B'), 'Work:B'), A('Proj'), dict(k='include', child=child), END, L(E('o', base + 500, 'Work:B'), 'Work:B')]
    evs = [l['e'] for l in lines if l['k'] == 'ev']
    now = (base // DAY + 3) * DAY
    return dict(events=evs, now=now, lines=lines, master=rng.choice([None, None, 'Top']), units=[])


def run(ctx, n_override=None):
    rng = ctx.rng
    res = lib.Result()
    res.rule = ('time-clock files of 1-60 i/o/I/O events over 1-4 accounts (gaps of seconds to days, aimed at midnights, month ends, '
                '29 February; interleaved sessions; check-outs with and without account; sessions left open; every malformed kind), '
                'bare or wrapped in directives (apply account blocks, also nested and around only some of the lines, --master-account, '
                'included files with clock lines, apply tag / apply year / year / alias, C conversions putting units with non-uniform factors above hours, '
                'sessions of several days), each run through reg with and without --day-break and through bal; '
                'non-trivial = the file contains a check-out line; distinct by the text of all files, --now, --master-account and the day-break flag')
    n = n_override or ctx.scale(600, 3000)
    cases = []
    for i in range(n):
        k = rng.random()
        if k < 0.10:
            cases.append(('d', dress(rng, gen_directed(rng), plain=rng.random() < 0.6)))
        elif k < 0.16:
            cases.append(('b', gen_blocks_directed(rng)))
        elif k < 0.30:
            c = gen_case(rng, long=True, small=rng.random() < 0.5)     # sessions of days: the totals reach the units above hours
            c['units'] = rng.choice(UNIT_SETS)
            cases.append(('u', dress(rng, c, plain=rng.random() < 0.5)))
        elif k < 0.33:
            cases.append(('n', dress(rng, gen_narrow(rng), plain=True)))
        elif k < 0.62:
            cases.append(('v', dress(rng, gen_case(rng))))
        else:
            cases.append(('m', dress(rng, gen_case(rng, malformed=rng.choice(['double', 'out-none', 'earlier', 'mismatch', 'anon-multi', 'anon-multi', 'any'])))))
    prepared = []
    model_in = []
    for i, (tag, case) in enumerate(cases):
        files, main = render(case)
        insts = resolve(case)
        for db in (0, 1):
            for inst in insts:
                model_in.append(lib.sx(['case', '%s%d-%d-%s' % (tag, i, db, inst['id']), db, inst['now'], [list(e) for e in inst['evs']]]))
        prepared.append((tag, case, files, main, insts))
    model_out = lib.run_model('C20', model_in)
    noted = {}
    hangs = 0
    shrunk = set()
    mpos = 0
    reported = []         # (case text, chain, [(what, seconds, text shown, exact shown)]) for the second model batch
    held_cmp = []         # (case, [(account, register rows of the account, %(subcount) of bal)]) for the third model batch
    for i, (tag, case, files, main, insts) in enumerate(prepared):
        if hangs >= 3:
            res.notes.append('stopped after 3 runs that did not terminate within 10 s and again within 90 s')
            break
        write_files(ctx, files)
        text = ''.join('== %s ==\n%s' % (f, files[f]) for f in sorted(files)) if len(files) > 1 else files[main]
        if any(l['k'] == 'alias' for l in case['lines']):
            noted['an alias directive is not applied to the account named on a time-clock line (F110, observation)'] = \
                noted.get('an alias directive is not applied to the account named on a time-clock line (F110, observation)', 0) + 1
        if any(i['now'] != case['now'] for i in insts):
            k = 'an included file read under a year / apply year directive of the including file has its open sessions closed at 31 December of that year, not at --now (F111, observation)'
            noted[k] = noted.get(k, 0) + 1
        for db in (0, 1):
            outs = []
            for inst in insts:
                ml = model_out[mpos]
                mpos += 1
                outs.append(ml.split(' ', 1)[1] if ' ' in ml else ml)
            r = run_impl(ctx.path(main), case['now'], db, case.get('master'))
            if r['status'] == 'timeout':
                hangs += 1
            ri = impl_canon(r, insts)
            rm = expected(insts, outs)
            res.evaluations += 1
            res.traces += 1
            nev = sum(len(x['evs']) for x in insts)
            res.count('kind:' + {'d': 'directed', 'b': 'directed-blocks', 'n': 'one-digit-hour', 'u': 'long-sessions-with-units', 'v': 'valid', 'm': 'malformed-stream'}[tag])
            res.count('events:%s' % ('1-2' if nev < 3 else '3-10' if nev <= 10 else '11-30' if nev <= 30 else '31+'))
            for f in features(case, insts, rm):
                res.count(f)
            canon = '%s|%d|%s|%d' % (text, case['now'], case.get('master'), db)
            if any(e[0] == 'o' for x in insts for e in x['evs']):
                res.nontrivial.add(canon)
            if len(res.samples) < 5 and 2 <= nev <= 6 and (db or len(res.samples) % 2 == 0) and (len(res.samples) < 2 or len(case['lines']) > nev):
                res.samples.append(dict(journal=text, now=case['now'], master=case.get('master'), day_break=bool(db), impl=ri, model=rm))
            if ri != rm:
                res.disagreements.append(dict(name='C20/register', case=dict(files=files, main=main, now=case['now'], master=case.get('master'), day_break=bool(db)),
                                              impl=ri[:600], model=rm[:600]))
            bal = None
            if r['status'] == 0 and not r['errs'] and ri == rm:
                bal = run_bal(ctx.path(main), case['now'], db, case.get('master')) if (db == i % 2 or case.get('units')) else None
            if bal is not None:
                items, run_total, per = [], 0, {}
                for w in r['rows']:
                    run_total += w['secs']
                    per[w['acct']] = per.get(w['acct'], 0) + w['secs']
                    items.append(('reg amount', w['secs'], w['da'], exact_of(w['dax'])))
                    items.append(('reg running total', run_total, w['dt'], exact_of(w['dtx'])))
                nrows = {}
                for w in r['rows']:
                    nrows[w['acct']] = nrows.get(w['acct'], 0) + 1
                held_cmp.append((dict(files=files, main=main, now=case['now'], master=case.get('master'), day_break=bool(db)),
                                 [(a, nrows.get(a, 0), bal[3].get(a)) for a, _, _ in bal[1]]))
                if bal[0] != 0 or sorted(a for a, _, _ in bal[1]) != sorted(per):
                    res.disagreements.append(dict(name='C20/bal-accounts', case=dict(files=files, main=main, now=case['now'], master=case.get('master'), day_break=bool(db)),
                                                  impl='status %s, accounts %s' % (bal[0], sorted(a for a, _, _ in bal[1])), model=str(sorted(per))))
                else:
                    for a, txt, ex in bal[1]:      # an account's total includes the accounts below it
                        items.append(('bal ' + a, sum(v for b, v in per.items() if b == a or b.startswith(a + ':')), txt, exact_of(ex)))
                    if bal[2] is not None:
                        items.append(('bal total', run_total, bal[2][0], exact_of(bal[2][1])))
                    elif len(per) > 1:
                        items.append(('bal total', run_total, '(no total line)', '-'))
                # the model answers for the bal figures, the last register row and one more row (the oracle reads them all)
                nreg = 2 * len(r['rows'])
                keep = set(range(nreg, len(items))) | {nreg - 2, nreg - 1}
                if nreg > 2:
                    j = 2 * rng.randrange(len(r['rows']) - 1)
                    keep |= {j, j + 1}
                items = [it for k_, it in enumerate(items) if k_ in keep and it[1] != 0]    # a zero shows as 0, 0s or integer 0: the oracle reads it
                reported.append((dict(files=files, main=main, now=case['now'], master=case.get('master'), day_break=bool(db)), case.get('units') or [], items))
                if case.get('units') and any(not re.fullmatch(r'[\d.]+[smh]', t) for _, _, t, _ in items):
                    res.count('reported-in-a-declared-unit')
            viol, notes = oracle(files, main, case.get('master'), case['now'], r, db, bal)
            for nt in notes:
                noted[nt] = noted.get(nt, 0) + 1
            for key, desc, obs, req in viol:
                jfiles = files
                if key not in shrunk and not key.startswith('no-result'):
                    shrunk.add(key)
                    small = shrink(ctx, case, db, key)
                    vs, sfiles = judge(ctx, small, db)
                    hit = [v for v in vs if v[0] == key]
                    if hit:
                        _, desc, obs, req = hit[0]
                        jfiles = sfiles
                    write_files(ctx, files)
                res.violations.append(dict(key=key, desc=desc, case=dict(files=jfiles, main=main, now=case['now'], master=case.get('master'), day_break=bool(db)),
                                           observed=str(obs), required=str(req)))
    # the reported (scaled) figures against the model's unit walk and display rounding
    queries, index = [], {}
    for _, units, items in reported:
        ck = lib.sx(chain_sx(units))
        for _, secs_, _, _ in items:
            if (ck, secs_) not in index:
                index[(ck, secs_)] = len(queries)
                queries.append('(unreduce q%d %d 1 73 0 %s)' % (len(queries), secs_, ck))
    answers = lib.run_model('C20', queries) if queries else []
    bad = 0
    for cs, units, items in reported:
        ck = lib.sx(chain_sx(units))
        for what, secs_, txt, ex in items:
            res.count('reported-figures')
            a = answers[index[(ck, secs_)]].split(' U ', 1)[1]
            mtxt, mex = shown_text(a)
            if mtxt is None:
                mtxt = txt
            if (txt, ex) != (mtxt, mex) and bad < 50:
                bad += 1
                res.disagreements.append(dict(name='C20/reported-time', case=cs, impl='%s of %d s: %s (%s)' % (what, secs_, txt, ex),
                                              model='%s (%s)' % (mtxt, mex)))
    # the postings each account holds (bal %(subcount)) against the model's held_of_rows of its register rows
    ns = sorted({n_ for _, items in held_cmp for _, n_, _ in items})
    held_model = {}
    if ns:
        for n_, l in zip(ns, lib.run_model('C20', ['(held h%d %d)' % (n_, n_) for n_ in ns])):
            held_model[n_] = int(l.split(' H ', 1)[1])
    bad = 0
    for cs, items in held_cmp:
        for a, n_, h in items:
            res.count('accounts-with-posting-count')
            if h != held_model[n_] and bad < 20:
                bad += 1
                res.disagreements.append(dict(name='C20/postings-held', case=cs, impl='%s holds %s postings (bal %%(subcount))' % (a, h),
                                              model='%d (register rows of the account: %d)' % (held_model[n_], n_)))
    for nt, c in sorted(noted.items()):
        res.notes.append('%s [%d runs]' % (nt, c))
    return res


def search(ctx, broken):
    import random
    for s in range(2):
        ctx.rng = random.Random('C20-search-%d-%d' % (ctx.seed, s))
        r = run(ctx, n_override=2000)
        if r.violations:
            return r.violations
    return []


def replay(ctx, obj):
    res = lib.Result()
    case = obj.get('case') or {}
    files = case.get('files') or ({'tl.dat': case['journal']} if 'journal' in case else None)
    if files:
        main = case.get('main', 'tl.dat')
        write_files(ctx, files)
        db = 1 if case.get('day_break') else 0
        r = run_impl(ctx.path(main), case['now'], db, case.get('master'))
        print('replay: status=%s errors=%s close=%s' % (r['status'], r['errs'], r['close']))
        for w in r['rows']:
            print('replay: row %s' % w)
        print('replay: required %s, observed before %s' % (obj.get('required'), obj.get('observed')))
        bal = run_bal(ctx.path(main), case['now'], db, case.get('master')) if r['status'] == 0 else None
        if bal:
            print('replay: bal %s total %s postings held %s' % (bal[1], bal[2], bal[3]))
        viol, _ = oracle(files, main, case.get('master'), case['now'], r, db, bal)
        for key, desc, obs, req in viol:
            if key == obj.get('key'):
                res.violations.append(dict(key=key, desc=desc))
    return res
