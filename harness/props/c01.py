"""C01 - a transaction is accepted iff its postings balance.
Correspondence: journals of generated transactions; per transaction accept/reject and error class,
per posting the exact amount/cost/flags (verif_rational hook) against the extracted model of
xact_base_t::finalize run over the whole journal (the pool learns display precision in file order).
Oracle (property text, Fractions): an exactly balanced transaction is accepted; one off by >= 1 whole
unit is rejected with 'Transaction does not balance' and a non-zero exit; the grand total at cost of
the balancing postings of an accepted exactly-balanced journal is exactly zero."""
import re
from fractions import Fraction as F
import lib
import xactlib as X

META = dict(
    id='C01',
    level='proof',
    technique='Coq proof about a transcription of xact_base_t::finalize (accepted => residual displays as zero; exactly balanced => accepted; whole-unit residual => rejected; journal grand total) + differential correspondence against ledger',
    level_text='Theorems in coq/Properties/Properties_C01.v are stated for the executable model of finalize (balance accumulation over cost-or-amount of the postings that must balance, null-posting detection, bucket, two-commodity implied rate, lot gain/loss, null fill, the display-zero test). The model is tied to the code by running whole generated journals through ledger and through the extracted model and comparing, per transaction, acceptance and error class, and per posting the exact rational amount, cost and the calculated/generated/cost_calculated flags.',
    level_note='Trusted: Coq kernel; display-zero uses the MPFR model Base/Round.v (validated); extraction/driver/harness for the correspondence. Not modelled: the computed {price} [date] annotation exchange() attaches to a posting with a cost, price-history recording, commodity smaller/larger unit reduction, transactions without a date.',
    design_ref='DESIGN.md section 7 C01',
    assumptions=['commodities $ EUR AAA BBB CCC in plain styles (styles are C04\'s subject)',
                 'accounts are plain names; virtual accounts are named V:/BV: so that the oracle can tell them apart'],
)


def classify(x):
    """what the property text says about transaction x: 'accept', 'reject' or None (not determined)"""
    if x.nulls():
        return None
    if any(p.amt is None for p in x.posts):
        return None
    r = x.residual()
    has_cost = any(p.cost for p in x.posts)
    has_lot = any(p.lot for p in x.posts)
    comms = set(p.balancing()[0] for p in x.posts if p.must_balance() and p.balancing()[1] != 0)
    if has_lot:
        return None
    if not r:
        return 'accept'
    if any(abs(v) >= 1 for v in r.values()):
        # two commodities and no cost: ledger infers a conversion rate; the text's "unbalanced" does not apply
        if (len(comms) == 2 or len(r) == 2) and not has_cost:
            return None
        return 'reject'
    return None


def gen_journal(rng):
    n = rng.randrange(3, 14)
    xs = []
    for i in range(n):
        r = rng.random()
        if r < 0.40:
            x = X.gen_balanced(rng)
        elif r < 0.42:
            x = X.gen_grant(rng)
        elif r < 0.57:
            x = X.unbalance(rng, X.gen_balanced(rng, with_costs=False), whole=True)
        elif r < 0.62:
            x = X.unbalance(rng, X.gen_balanced(rng, ncomm=1, with_costs=False), whole=False)
        elif r < 0.74:
            x = X.gen_half_unit(rng)
            x.kind_tag = 'half'
            if rng.random() < 0.45:
                x = X.add_cancelling_pair(rng, x)      # the residue is judged inside a two-entry balance
        elif r < 0.86:
            x = X.gen_two_commodity(rng)
        elif r < 0.89:
            x = X.gen_lot(rng)
        elif r < 0.93:
            x = X.gen_cost_unbalanced(rng)
        elif r < 0.96:
            x = X.gen_cost_only(rng)
        elif r < 0.98:
            x = X.gen_plain(rng, elide=rng.random() < 0.3)
        elif r < 0.99:
            x = X.gen_virtual_lot(rng, elide=rng.random() < 0.5)
        elif r < 0.995:
            x = X.gen_implied_rate_with_cancel(rng) if rng.random() < 0.5 else X.gen_implied_rate_with_virtual(rng)
        else:
            x = X.add_null(rng, X.gen_balanced(rng, with_costs=False))
        x.date = '2020/%02d/%02d' % (rng.randrange(1, 13), rng.randrange(1, 29))
        xs.append(x)
    return X.written_variants(xs)


def run_one(ctx, res, j, xs, bucket=None):
    rows, rejected, errs, st, text = X.compare_journal(ctx, res, 'C01', j, xs, bucket)
    if j % 2 == 0:
        without_virtual(ctx, res, j, xs, rejected, errs, text)
    for i, x in enumerate(xs):
        impl = X.impl_summary(i, rows, rejected, errs)
        # ---- oracle
        want = classify(x)
        if want:
            res.nontrivial.add(x.text(0))
        if want == 'accept' and i in rejected:
            res.violations.append(dict(key='balanced-rejected:' + errs[i], desc='exactly balanced transaction rejected (%s)' % errs[i],
                                       case=dict(journal=text, xact=i), observed=impl, required='accepted'))
        if want == 'reject' and (i not in rejected or errs[i] != 'Unbalanced'):
            res.violations.append(dict(key='unbalanced-accepted', desc='transaction off by a whole unit was not rejected as unbalanced: residual %s' % x.residual(),
                                       case=dict(journal=text, xact=i), observed=impl, required='ERR Unbalanced'))
        if want == 'reject' and st == 0:
            res.violations.append(dict(key='unbalanced-exit-zero', desc='exit status 0 although a transaction does not balance',
                                       case=dict(journal=text, xact=i), observed='status 0', required='non-zero status'))
        if getattr(x, 'kind_tag', None) == 'half':
            # "to within that commodity's display precision": a residue clearly below half a unit of the precision $ has been
            # taught by the posting amounts read so far is accepted, one clearly above it is refused - whatever else the
            # transaction holds (an exactly cancelling second commodity makes the tested value a two-entry balance)
            r_ = x.residual()
            if set(r_) == {'$'}:
                prec = max([q.amt.dec for y in xs[:i + 1] for q in y.posts if q.amt is not None and q.amt.sym == '$'] or [0])
                half = F(1, 2 * 10 ** prec)
                res.count('half-unit:' + ('two-entry-balance' if len(set(q.amt.sym for q in x.posts if q.amt)) > 2 else 'one-entry'))
                if abs(r_['$']) * 10 < half * 9 and i in rejected:
                    res.violations.append(dict(key='within-precision-rejected', desc='a residue of $%s, below half a unit of the %d decimals $ is displayed with, was refused (%s)' % (r_['$'], prec, errs[i]),
                                               case=dict(journal=text, xact=i), observed=impl, required='accepted'))
                if abs(r_['$']) * 10 > half * 11 and i not in rejected:
                    res.violations.append(dict(key='beyond-precision-accepted', desc='a residue of $%s, above half a unit of the %d decimals $ is displayed with, was accepted' % (r_['$'], prec),
                                               case=dict(journal=text, xact=i), observed=impl, required='Transaction does not balance'))
        if len(res.samples) < 5 and x.posts and (any(p.cost for p in x.posts) or i in rejected):
            res.samples.append(dict(xact=x.text(i), impl=impl[:300]))
    # grand total at cost over must-balance postings of accepted, exactly balanced journals
    if not rejected and all(classify(x) == 'accept' for x in xs):
        tot = {}
        for i, rs in rows.items():
            for r in rs:
                if r['acct'].startswith('V:'):
                    continue
                c = r['cost']
                tot[c[0]] = tot.get(c[0], 0) + c[1]
        bad = {k: v for k, v in tot.items() if v != 0}
        res.count('grand-total-checked')
        if bad:
            res.violations.append(dict(key='grand-total-nonzero', desc='accepted exactly balanced journal has a non-zero total at cost: %s' % bad,
                                       case=dict(journal=text), observed=str(bad), required='zero in every commodity'))
    return rejected, errs, text


def without_virtual(ctx, res, j, xs, rejected, errs, text):
    """"(virtual) postings need not balance": the same journal without its (parenthesised) postings accepts and rejects
    exactly the same transactions (judged on ledger's behaviour alone; which transactions are rejected and why)"""
    if not any(p.kind == 'V' for x in xs for p in x.posts):
        return
    # a (virtual) amount written with more decimals than anything before it teaches its commodity a finer display
    # precision, and the display-zero test of every LATER transaction is made at that precision: such a journal is
    # outside this comparison (the posting does not decide its own transaction, but it is not without any effect)
    seen = {}

    def written(q):
        a = q.amt            # a cost or a lot price teaches its commodity nothing
        if a is not None and a.sym is not None:
            yield a.sym, a.dec
    for x in xs:
        for q in x.posts:
            if q.kind != 'V':
                for c, d in written(q):
                    seen[c] = max(seen.get(c, 0), d)
        for q in x.posts:
            if q.kind == 'V' and any(d > seen.get(c, -1) for c, d in written(q)):
                res.count('without-virtual:skipped-teaches-precision')
                return
    ys = []
    for x in xs:
        ps = [p for p in x.posts if p.kind != 'V']
        ys.append(X.Xact(ps, x.date) if ps else None)
    if any(y is None for y in ys):
        return
    text2 = X.render_journal(ys)
    st, out, err, path = X.run_ledger_journal(ctx, 'C01_nov_%d.dat' % (j % 4), text2)
    errs2 = X.parse_errors(err, path, text2)
    rej2 = set(k for k in errs2 if isinstance(k, int))
    res.evaluations += 1
    res.count('without-virtual:compared')
    for i in sorted(set(rejected) ^ rej2):
        res.violations.append(dict(key='virtual-posting-decides-acceptance', desc='transaction x%d is %s with its (virtual) postings and %s without them'
                                   % (i, 'rejected (%s)' % errs.get(i) if i in rejected else 'accepted', 'rejected (%s)' % errs2.get(i) if i in rej2 else 'accepted'),
                                   case=dict(journal=text, xact=i, without_virtual=text2), observed='acceptance differs', required='the same acceptance'))


def exit_status_across_files(ctx, res, rng, j, xs):
    """the journal with a rejected transaction in it, followed by an `include` of a clean file, or given as the first of two
    -f files, or itself included from a clean file: wherever the unbalanced transaction sits, ledger exits non-zero and
    prints no report (judged on ledger's behaviour alone)"""
    body = '\n'.join(x.text(i) for i, x in enumerate(xs))
    clean = '2020/12/30 clean\n    Assets:Cash    $1.00\n    Equity:Open\n'
    k = rng.randrange(4)
    main, inc = ctx.path('C01_st_main.dat'), ctx.path('C01_st_inc.dat')
    args = ['-f', main]
    if k == 0:
        open(main, 'w').write(body + '\n\ninclude C01_st_inc.dat\n'); open(inc, 'w').write(clean)
    elif k == 1:
        open(main, 'w').write(clean + '\ninclude C01_st_inc.dat\n\n' + clean.replace('clean', 'clean2')); open(inc, 'w').write(body)
    elif k == 2:
        open(main, 'w').write(body); open(inc, 'w').write(clean); args += ['-f', inc]
    else:
        open(main, 'w').write(clean); open(inc, 'w').write(body); args += ['-f', inc]
    st, out, err = lib.run_ledger(args + ['bal'])
    res.evaluations += 1
    res.count('status-layout:%d' % k)
    if st == 0 or out.strip():
        res.violations.append(dict(key='unbalanced-exit-zero:across-files', desc='a transaction that does not balance sits in %s, yet ledger exits %s and prints %d bytes of report'
                                   % (['the main file before an include', 'an included file', 'the first of two -f files', 'the second of two -f files'][k], st, len(out)),
                                   case=dict(journal=body, layout=k), observed='status %s, %d bytes on stdout' % (st, len(out)), required='non-zero status, no report'))


def many_unbalanced(ctx, res, rng):
    """the exit status is the number of refused items, and the system keeps eight bits of it: journals with 1, 2, 255, 256,
    257, 300, 512 and 1000 transactions that do not balance (in one file and spread over two -f files, a few balanced ones
    among them) still exit non-zero, name every one of them and print no report"""
    for n in [1, 2, 255, 256, 257, 300, 512, 1000]:
        xs = []
        for i in range(n):
            x = X.unbalance(rng, X.gen_balanced(rng, ncomm=1, with_costs=False, with_virtual=False), whole=True)
            x.date = '2020/%02d/%02d' % (rng.randrange(1, 13), rng.randrange(1, 29))
            xs.append(x)
        for _ in range(3):
            g = X.gen_balanced(rng, ncomm=1, with_costs=False, with_virtual=False)
            g.date = '2020/06/15'
            xs.insert(rng.randrange(0, len(xs) + 1), g)
        cut = rng.randrange(1, len(xs))
        layouts = [[xs]] + ([[xs[:cut], xs[cut:]]] if n > 1 else [])
        for parts in layouts:
            args, texts = [], []
            base = 0
            for k, part in enumerate(parts):
                path = ctx.path('C01_many_%d.dat' % k)
                text = '\n'.join(x.text(base + i) for i, x in enumerate(part))
                base += len(part)
                open(path, 'w').write(text)
                texts.append(text)
                args += ['-f', path]
            st, out, err = lib.run_ledger(args + ['bal'])
            res.evaluations += 1
            res.count('many-unbalanced:%d:%d-files' % (n, len(parts)))
            res.nontrivial.add('many:%d:%d:%s' % (n, len(parts), texts[0][:200]))
            named = err.decode('utf-8', 'replace').count('Transaction does not balance')
            if st == 0 or out.strip() or named != n:
                res.violations.append(dict(key='unbalanced-exit-zero:many' if st == 0 else 'unbalanced-not-all-reported',
                                           desc='%d transactions that do not balance (%d file(s)): exit status %s, %d of them named, %d bytes of report' % (n, len(parts), st, named, len(out)),
                                           case=dict(journal='\n; ---- next file\n'.join(texts), count=n), observed='status %s' % st, required='non-zero status, %d errors named, no report' % n))


def automated(ctx, res, rng, n):
    """journals with automated transactions (the C16 generator: rules of real, [balanced] and (virtual) lines in every
    order, balanced or not).  Judged on ledger's own rows alone: whatever a rule added, the postings of an ADMITTED
    transaction that must balance sum to zero at display precision, and a rejected one says so with a non-zero status.
    (Which postings a rule generates is C16's subject and model; here only the admission rule.)"""
    import importlib
    c16 = importlib.import_module('props.c16')
    for j in range(n):
        items = c16.gen_journal(rng)
        rows, rejected, st, text = c16.run_clean(ctx, res, 'C01_auto_%d.dat' % (j % 4), items, True)
        res.evaluations += 1
        res.count('automated:journals')
        if rejected and st == 0:
            res.violations.append(dict(key='unbalanced-exit-zero', desc='exit status 0 although a transaction was rejected', case=dict(journal=text),
                                       observed='status 0', required='non-zero status'))
        for i, got in rows.items():
            if any(r['cost'] is None or r['amt'] is None for r in got):
                continue
            if any('~' in (r['cost'][0] or '') for r in got):
                continue                       # lots: gain/loss postings are C01's main stream's business
            tot = {}
            for r in got:
                if r['kind'] != 'v':
                    tot[r['cost'][0]] = tot.get(r['cost'][0], 0) + r['cost'][1]
            tot = {k: v for k, v in tot.items() if v != 0}
            if any(r['generated'] for r in got):
                res.nontrivial.add('auto:%d:%d:' % (j, i) + '|'.join(r['text'] for r in got))
                res.count('automated:extended-transactions')
            if c16.display_state(tot) == 'nonzero':
                res.violations.append(dict(key='admitted-unbalanced:automated', desc='the postings that must balance of an admitted transaction (with the postings automated transactions added) sum to %s' % {k: str(v) for k, v in tot.items()},
                                           case=dict(journal=text, xact=i), observed='accepted', required='zero at display precision, or Transaction does not balance'))

MARKS = ['* ', '! ', '*', '!', '*\t', '!  ', '* \t']
HEADS = ['* ', '! ', '(c1) ', '* (#42) ', '! (a b) ', '*(7) ', '!   ']


def gen_only_virtual(rng):
    """a transaction none of whose postings has to balance: 1-3 (virtual) postings with arbitrary amounts"""
    ps = []
    for _ in range(rng.randrange(1, 4)):
        sym = rng.choice(['$', 'EUR', 'AAA'])
        a = X.Amt.rand(rng, sym)
        ps.append(X.Post(X.acct_of(rng, 'V'), 'V', a if rng.random() < 0.6 else a.neg()))
    x = X.Xact(ps)
    x.kind_tag = 'only-virtual'
    return x


def state_flags(ctx, res, rng, n):
    """state flags and codes are irrelevant for the balance; a transaction of (virtual) postings only is accepted.
    The main generator's journals, a few only-(virtual) transactions among them, are run through ledger twice: as they
    are, and with a state flag (`* `, `!`, `*<tab>` ...) before the account of about half the postings and a state flag
    and/or a (code) in about half the transaction headers.  The flagged journal goes through the whole comparison (the
    model reads the flag off the written posting line, Model/PostLine.v read_post_line) and the property-text oracle;
    and - judged on ledger alone - it accepts and rejects exactly the transactions of the unflagged journal, with the
    same error classes."""
    for j in range(n):
        xs = gen_journal(rng)
        for _ in range(rng.randrange(0, 3)):
            v = gen_only_virtual(rng)
            v.date = '2020/%02d/%02d' % (rng.randrange(1, 13), rng.randrange(1, 29))
            xs.insert(rng.randrange(0, len(xs) + 1), v)
        text0 = X.render_journal(xs)
        st0, out0, err0, path0 = X.run_ledger_journal(ctx, 'C01_flags0_%d.dat' % (j % 4), text0)
        errs0 = X.parse_errors(err0, path0, text0)
        res.evaluations += 1
        for x in xs:
            if rng.random() < 0.5:
                x.head = rng.choice(HEADS)
                res.count('state-flags:header:' + x.head.strip().replace(' ', '_')[:1])
            for q in x.posts:
                if rng.random() < 0.5:
                    q.mark = rng.choice(MARKS)
                    if q.sep is None:
                        q.sep = '    '             # the written line is handed to the model
                    res.count('state-flags:posting-flagged')
        rejected, errs, text = run_one(ctx, res, 100000 + 2 * j + 1, xs)
        res.count('state-flags:journals')
        for i, x in enumerate(xs):
            if getattr(x, 'kind_tag', None) == 'only-virtual':
                res.count('only-virtual:' + ('rejected' if i in rejected else 'accepted'))
        a = {k: v for k, v in errs0.items() if isinstance(k, int)}
        b = {k: v for k, v in errs.items() if isinstance(k, int)}
        for i in sorted(set(a) | set(b)):
            if a.get(i) != b.get(i):
                res.violations.append(dict(key='state-flag-decides-acceptance', desc='transaction x%d is %s as written plainly and %s with state flags / a code written in'
                                           % (i, 'rejected (%s)' % a[i] if i in a else 'accepted', 'rejected (%s)' % b[i] if i in b else 'accepted'),
                                           case=dict(journal=text, xact=i, unflagged=text0), observed='acceptance differs', required='the same acceptance'))


def run(ctx, n_override=None):
    rng = ctx.rng
    res = lib.Result()
    res.rule = ('journals of 3-13 transactions drawn from: exactly balanced (1-3 commodities, costs @/@@, (virtual)/[balanced] '
                'postings), off by >= 1 whole unit, off by a sub-display amount, residual at/just below/just above half a display '
                'unit through an excess-precision cost, two-commodity implied-rate shapes, lot price vs sale price (gain/loss), one '
                'elided amount, commodity-less amounts, a (virtual) lot sale; the same journals with state flags before posting accounts, state flags and (codes) in headers and '
                'transactions of (virtual) postings only; plus journals with automated transactions (the C16 generator) judged on '
                'the admitted rows alone; non-trivial = the property text determines accept/reject for it (or a rule extended the transaction); '
                'distinct by rendered text')
    n = n_override or ctx.scale(260, 3500)
    for j in range(n):
        if rng.random() < 0.2:
            xs = [X.gen_balanced(rng) for _ in range(rng.randrange(2, 8))]    # all exactly balanced: grand total
        else:
            xs = gen_journal(rng)
        run_one(ctx, res, j, xs)
        if j % 4 == 1 and any(classify(x) == 'reject' for x in xs):
            exit_status_across_files(ctx, res, rng, j, xs)
    automated(ctx, res, rng, max(20, n // 4))
    state_flags(ctx, res, rng, max(30, n // 7))
    many_unbalanced(ctx, res, rng)
    return res


def search(ctx, broken):
    import random
    for s in range(4):
        ctx.rng = random.Random('C01-search-%d-%d' % (ctx.seed, s))
        r = run(ctx, n_override=500)
        if r.violations:
            return r.violations
    return []


def replay(ctx, obj):
    res = lib.Result()
    case = obj.get('case') or {}
    if 'journal' in case:
        st, out, err, path = X.run_ledger_journal(ctx, 'replay.dat', case['journal'])
        print('status', st)
        print(out.decode()[:3000])
        print(err.decode()[:3000])
        if case.get('count') and (st == 0 or out.strip()):
            res.violations.append(dict(key=obj.get('key', 'unbalanced-exit-zero:many'), desc='%d transactions that do not balance: exit status %s' % (case['count'], st)))
    return res
