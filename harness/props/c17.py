"""C17 - sorting and regrouping options only reorder or merge postings.
Correspondence: generated journals (several commodities, repeated payees / dates / amounts,
virtual postings, posting states) are reported by ledger's REPL with `reg --format` (exact
amounts and running totals through the verif_rational hook) under --sort KEYS, --head/--tail N,
--collapse, --subtotal, --by-payee, --dow, --depth N, --by-payee --subtotal, --dow --subtotal, alone and combined with --real /
--cleared / an account query / a payee query and with each other (postings may name their own
payee with a `; Payee:` tag: post_t::payee() is the key of --by-payee, --sort payee and @NAME), and by the extracted Coq model
(Model/Regroup.v: the handler chain of chain.cc); rows are compared one by one.
Oracle: python written from the property text, on ledger's own outputs only: the sorted
register is a permutation of the plain one, ordered by the key, ties in input order;
--head/--tail keep the first/last N transactions of the reference register; every regrouped
row is the exact per-commodity sum of its members and the grand total is preserved."""
import datetime, os, re
from fractions import Fraction as F
import lib

META = dict(
    id='C17',
    level='proof',
    technique='Coq proof (std::stable_sort by specification: unique stable sorted permutation; comparator is a strict weak order; head/tail window; group sums by fold invariants) + differential correspondence of the extracted handler-chain model against ledger',
    level_text='Theorems in coq/Properties/Properties_C17.v: any two results meeting the specification of a stable sort are equal and the model\'s insertion sort meets it (so the model predicts std::stable_sort without trusting its algorithm); the model of sort_value_is_less_than is a strict weak order on dates, strings, amounts and compound keys with inverted components whenever no amount lacks a commodity or at most one commodity occurs (and is refuted by a cyclic witness otherwise); --sort yields a permutation with unchanged amounts; the model of truncate_xacts keeps exactly the first / last N transactions of the stream for every integer N (0, beyond the count, negative as coded); the models of subtotal_posts, by_payee_posts, day_of_week_posts and collapse_posts (--collapse, --depth) emit groups whose values are the exact per-commodity sums of their members and preserve the grand total in every commodity; subtotal_posts behind --by-payee / --dow (--by-payee --subtotal, --dow --subtotal) is the same handler on the rows of the first one, multi-commodity rows counted with their whole value, so the grand total is again that of the plain register (by_payee_subtotal_total, dow_subtotal_total; /repo 790ae5e repaired F1709, 58fd328 F25). The model is tied to the code by comparing, row for row (transaction identity, date, payee, account, exact amount, exact running total), ledger\'s register with the extracted model on thousands of generated journal/option pairs.',
    level_note='Trusted: Coq kernel; extraction + OCaml driver and the python harness for the correspondence; amount arithmetic is the C03 model (GMP as Q). std::stable_sort is modelled by its specification; the iteration order of collapse_posts\' totals map (keyed by account address) is unspecified, rows of one --depth group are compared as a set. Display hiding of zero rows is avoided by always passing --empty.',
    design_ref='DESIGN.md section 7 C17',
    assumptions=['commodities are unannotated symbols (no lot prices/dates), no posting-level dates, no automated or periodic transactions',
                 'payees contain no % (by_payee_posts passes the payee to strftime) and no | ; account and payee (@NAME) queries are literal substrings',
                 '10-30% of the postings of most journals name their own payee (`; Payee: NAME` on the posting line or the line after, occasionally on the transaction); the model is fed post_t::payee() per posting and the transaction payee separately; the oracle takes each posting\'s payee from the plain register\'s own %(payee)',
                 'the register is run with --empty so that every posting or group is a row',
                 '--by-payee --subtotal and --dow --subtotal (subtotal_posts fed the rows of another subtotalling handler, multi-commodity rows included) are generated and modelled (resubtotal); a period option in front of them and collapse/sort/head/tail behind that pair are not',
                 'negative --head/--tail counts are modelled as coded but are outside the property\'s quantifier (oracle silent)'],
)

EPOCH = datetime.date(1970, 1, 1).toordinal()
FMT = "%(xact.beg_line)|%(date)|%(payee)|%(xact.payee)|%(account)|%(virtual)|%(verif_rational(amount))|%(verif_rational(total))\\n"
ACCOUNTS = ['Expenses:Food', 'Expenses:Food:Fruit', 'Expenses:Drink', 'Expenses:Books', 'Assets:Cash',
            'Assets:Bank:Checking', 'Assets:Bank:Savings', 'Liabilities:Card', 'Income:Salary', 'Equity',
            'assets:petty', 'Expenses:Food-2', 'Expenses']
VIRT_ACCOUNTS = ['Virt:Budget', 'Virt:Plan:Year', 'Budget']
BALANCERS = ['Assets:Cash', 'Assets:Bank:Checking', 'Liabilities:Card', 'Equity', 'Assets:Bank:Savings']
PAYEES = ['Shop', 'Cafe', 'shop', 'Book Store', 'Zed', 'Acme-1', 'Cafe 2', 'ACME', 'a']
# payee names a date formatter would alter (strftime conversions, a literal %%) or cannot hold (127+ bytes)
ODD_PAYEES = ['Save 50%d off', 'Tax %A', '100%', '%Y sale %%', 'Rate %b-%e', '5% off', 'L' * 140]
# payees named by a posting only (`; Payee: NAME` on the posting): post_t::payee() honours them
POST_PAYEES = ['Railways', 'Airport Taxi', 'Kiosk', 'Zed Ltd', 'Station Cafe', 'B']
PAYEE_PATTERNS = ['Cafe', 'Shop', 'Rail', 'Taxi', 'Zed', 'Kiosk', 'Book', 'Acme', 'Station', 'xyz', 'o']
SYMS = [('$', 'pre'), ('EUR', 'suf'), ('AAA', 'suf'), ('CAD', 'suf'), ('B', 'suf')]
PATTERNS = ['Expenses', 'Food', 'Assets', 'Cash', 'ood', 'xyz', 'Bank', 'Budget', 'Equity', 'Checking']
DOW_NAMES = ['Sundays', 'Mondays', 'Tuesdays', 'Wednesdays', 'Thursdays', 'Fridays', 'Saturdays']
SORTS = ['date', 'payee', 'account', 'amount', '-amount', '-date', '-payee', '-account', 'date,-amount',
         'payee,date', '-account,amount', 'amount,payee', 'date,payee,-account', '-payee,-date', 'account,-amount',
         '-amount,date', 'payee,account,amount']


# ---------------------------------------------------------------------------------- journals
def amt_text(n, dec, sym):
    """n: integer number of 10^-dec units"""
    s = str(abs(n))
    if dec:
        s = s.rjust(dec + 1, '0')
        s = s[:-dec] + '.' + s[-dec:]
    if n < 0:
        s = '-' + s
    if sym is None:
        return s
    name, side = sym
    return (name + s) if side == 'pre' else (s + ' ' + name)


def gen_journal(rng, profile):
    """-> list of transactions dict(date, state, payee, xtag, posts=[dict(acct, virt, mark, n, dec, sym, ppayee, pstyle)])
    ppayee: the posting's own `; Payee:` tag (None = none); xtag: the same tag on the transaction."""
    nx = rng.choice([0, 1, 2, 3, 3, 4, 5, 6, 8]) if profile != 'big' else rng.randrange(8, 16)
    nsym = rng.choice([1, 2, 2, 3, 4])
    syms = rng.sample(SYMS, nsym)
    accts = rng.sample(ACCOUNTS, rng.choice([3, 5, 7, len(ACCOUNTS)]))
    payees = rng.sample(PAYEES, rng.choice([1, 2, 3, 5]))
    if rng.random() < 0.2:
        payees += rng.sample(ODD_PAYEES[:-1], rng.choice([1, 2])) + (ODD_PAYEES[-1:] if rng.random() < 0.15 else [])
    base = datetime.date(2020, rng.randrange(1, 13), rng.randrange(1, 20))
    span = rng.choice([1, 3, 8, 40])
    # 10-30% of the postings name their own payee (a fresh name, another transaction's payee,
    # or their own transaction's payee again); a few journals have none
    tag_rate = rng.choice([0.0, 0.1, 0.2, 0.2, 0.3, 0.3])
    fresh = rng.sample(POST_PAYEES, rng.choice([1, 2, 3])) + (rng.sample(ODD_PAYEES[:-1], 1) if rng.random() < 0.1 else [])
    xs = []
    for _ in range(nx):
        d = base + datetime.timedelta(days=rng.randrange(span))
        posts = []
        sums = {}
        for _ in range(rng.choice([1, 1, 2, 2, 3, 4])):
            sym = rng.choice(syms)
            r = rng.random()
            if profile == 'odd' and r < 0.12:
                sym = None                                  # an amount without commodity
            dec = rng.choice([0, 2, 2, 2, 3]) if sym is None or sym[0] != '$' else rng.choice([2, 2, 2, 0, 3])
            n = rng.choice([1, 2, 3, 5, 5, 10, 10, 25, 100, 999, 1234]) * rng.choice([1, 1, -1]) * (10 ** dec if rng.random() < 0.7 else 1)
            if profile == 'odd' and rng.random() < 0.1:
                n = 0                                       # a zero amount
            virt = ''
            r2 = rng.random()
            acct = rng.choice(accts)
            if r2 < 0.10:
                virt = '()'
                if profile != 'odd' or r2 < 0.05:
                    acct = rng.choice(VIRT_ACCOUNTS)        # else: an account used virtually and really
            mark = rng.choice([None] * 8 + [1, 2])
            posts.append(dict(acct=acct, virt=virt, mark=mark, n=n, dec=dec, sym=sym))
            if not virt:
                k = sym
                q0 = sums.get(k, (0, 0))
                dd = max(q0[1], dec)
                sums[k] = (q0[0] * 10 ** (dd - q0[1]) + n * 10 ** (dd - dec), dd)
        if rng.random() < 0.07:
            sym = rng.choice(syms)
            n = rng.choice([1, 7, 30]) * 100
            a1, a2 = rng.choice(accts), rng.choice(accts)
            if profile != 'odd':
                a1, a2 = rng.choice(VIRT_ACCOUNTS), rng.choice(VIRT_ACCOUNTS)
            posts.append(dict(acct=a1, virt='[]', mark=None, n=n, dec=2, sym=sym))
            posts.append(dict(acct=a2, virt='[]', mark=None, n=-n, dec=2, sym=sym))
        for k, (n, dd) in sorted(sums.items(), key=lambda kv: str(kv[0])):
            if n != 0:
                posts.append(dict(acct=rng.choice(BALANCERS), virt='', mark=rng.choice([None] * 9 + [1]), n=-n, dec=dd, sym=k))
        rng.shuffle(posts) if rng.random() < 0.5 else None
        payee = rng.choice(payees)
        for p in posts:
            p['ppayee'], p['pstyle'] = None, 'inline'
            if rng.random() < tag_rate:
                k = rng.randrange(4)
                p['ppayee'] = rng.choice(fresh) if k < 2 else (rng.choice(payees) if k == 2 else payee)
                p['pstyle'] = rng.choice(['inline', 'inline', 'next'])
                if rng.random() < 0.1:
                    # a tag on the posting line AND another one on the line after it
                    p['pstyle'], p['ppayee2'] = 'both', rng.choice(fresh + payees)
        xtag = rng.choice(fresh + payees) if tag_rate and rng.random() < 0.06 else None
        xs.append(dict(date=d, state=rng.choice([0, 0, 1, 1, 2]), payee=payee, xtag=xtag, posts=posts))
    return xs


def render_journal(xs):
    """-> (text, {header line: transaction index})"""
    lines, where = [], {}
    for i, x in enumerate(xs):
        where[len(lines) + 1] = i
        st = {0: '', 1: ' *', 2: ' !'}[x['state']]
        lines.append('%s%s %s' % (x['date'].strftime('%Y/%m/%d'), st, x['payee']))
        if x.get('xtag'):
            lines.append('    ; Payee: %s' % x['xtag'])
        for p in x['posts']:
            a = p['acct']
            if p['virt'] == '()':
                a = '(' + a + ')'
            elif p['virt'] == '[]':
                a = '[' + a + ']'
            mk = {None: '', 1: '* ', 2: '! '}[p['mark']]
            l = '    %s%s    %s' % (mk, a, amt_text(p['n'], p['dec'], p['sym']))
            if p.get('ppayee') and p['pstyle'] in ('inline', 'both'):
                l += '  ; Payee: %s' % p['ppayee']
            lines.append(l)
            if p.get('ppayee') and p['pstyle'] == 'next':
                lines.append('    ; Payee: %s' % p['ppayee'])
            if p.get('ppayee') and p['pstyle'] == 'both':
                lines.append('    ; Payee: %s' % p['ppayee2'])
        lines.append('')
    return '\n'.join(lines) + '\n', where


def payee_rule():
    """which rule of post_t::payee() the source under test follows: coq/Gen/PayeeRule.v, written from
    src/textual.cc and src/post.cc on every run by harness/translators/c18_payee_rule.py"""
    try:
        m = re.search(r'src_payee_rule\s*:\s*payee_rule\s*:=\s*(\w+)', open(os.path.join(lib.COQ, 'Gen', 'PayeeRule.v')).read())
        return m.group(1) if m else 'PayeeRuleUnrecognised'
    except OSError:
        return 'PayeeRuleUnrecognised'


def post_payee(x, p, rule=None):
    """post_t::payee() as the register's %(payee) shows it: the posting's own `; Payee:` tag, else the
    transaction's tag, else the transaction's payee.  Where the tag sits matters for one case:
      PayeeFixedAtPostingLine: the payee is fixed when the posting LINE has been read (parse_post), so a
        tag on the line after the posting loses against a transaction-level tag (it still wins against
        the plain transaction payee);
      PayeeFollowsLaterTags (/repo 139b61c): parse_xact stores the payee again when a note line after
        the posting changes the tag, so the posting's own tag wins wherever it sits.
    The rule in force is read from the source (payee_rule()); run() also checks the feed against the
    plain register's own %(payee) column."""
    rule = rule or payee_rule()
    if p.get('ppayee') and p.get('pstyle') == 'both':
        # two tags: the stored one (posting line) under the old rule, the later one under the new rule
        return p['ppayee'] if rule == 'PayeeFixedAtPostingLine' else p['ppayee2']
    if p.get('ppayee') and (p.get('pstyle') == 'inline' or rule != 'PayeeFixedAtPostingLine'):
        return p['ppayee']
    return x.get('xtag') or p.get('ppayee') or x['payee']


def posts_sx(xs):
    out = []
    for i, x in enumerate(xs):
        for p in x['posts']:
            st = p['mark'] if p['mark'] is not None else x['state']
            q = F(p['n'], 10 ** p['dec'])
            out.append([3 * i, x['date'].toordinal() - EPOCH, post_payee(x, p).encode(), x['payee'].encode(), p['acct'].encode(),
                        bool(p['virt']), st, q.numerator, q.denominator, p['dec'],
                        p['sym'][0].encode() if p['sym'] else b''])
    return out


# ----------------------------------------------------------------------------------- options
class Opt:
    def __init__(self, real=False, state=0, query=None, grp='none', coll=None, sort=None, head=None, tail=None, pquery=None):
        self.real, self.state, self.query, self.grp, self.coll = real, state, query, grp, coll
        self.pquery = pquery
        self.sort, self.head, self.tail = sort, head, tail

    def but(self, **kw):
        d = dict(self.__dict__)
        d.update(kw)
        return Opt(**d)

    def args(self):
        a = []
        if self.real:
            a.append('--real')
        if self.state:
            a.append({1: '--cleared', 2: '--pending', 3: '--uncleared'}[self.state])
        if self.grp != 'none':
            a += {'sub': ['--subtotal'], 'payee': ['--by-payee'], 'dow': ['--dow'],
                  'payee+sub': ['--by-payee', '--subtotal'], 'dow+sub': ['--dow', '--subtotal']}[self.grp]
        if self.coll is not None:
            a += ['--collapse'] if self.coll == 0 else ['--depth', str(self.coll)]
        if self.sort:
            a += ['--sort', self.sort]
        if self.head is not None:
            a += ['--head', str(self.head)]
        if self.tail is not None:
            a += ['--tail', str(self.tail)]
        if self.query:
            a.append(self.query)
        if self.pquery:
            a.append('@' + self.pquery)
        return a

    def text(self):
        return ' '.join(self.args()) or '(plain)'

    def sx(self):
        srt = '-'
        if self.sort:
            srt = [[k.startswith('-'), k.lstrip('-')] for k in self.sort.split(',')]
        return ['opts', self.real, self.state, self.query.encode() if self.query else '-',
                self.pquery.encode() if self.pquery else '-', self.grp,
                self.coll if self.coll is not None else '-', srt,
                self.head if self.head is not None else '-', self.tail if self.tail is not None else '-']

    def regroups(self):
        return self.grp != 'none' or self.coll is not None


# ------------------------------------------------------------------------- reading ledger rows
class Row:
    __slots__ = ('line', 'days', 'payee', 'xpayee', 'acct', 'virt', 'amt', 'tot')

    def ident(self):
        return (self.line, self.days, self.payee, self.acct, self.amt)

    def full(self):
        return (self.line, self.days, self.payee, self.acct, self.amt, self.tot)


def parse_block(block):
    """one REPL answer -> list of Row | 'ERR:<class>' """
    if 'Error' in block or block.startswith('CRASH('):
        if 'cannot accept virtual and' in block:
            return 'ERR:virtual-mismatch'
        if 'uninitialized amount' in block:
            return 'ERR:uninitialized-amount'
        if block.startswith('CRASH('):
            return 'ERR:crash'
        return 'ERR:other'
    rows = []
    for l in block.split('\n'):
        if not l:
            continue
        f = l.split('|')
        if len(f) != 8:
            return 'ERR:unreadable'
        r = Row()
        r.line = int(f[0])
        y, m, d = f[1].split('/')
        r.days = datetime.date(int(y), int(m), int(d)).toordinal() - EPOCH
        r.payee, r.xpayee, r.acct, r.virt, r.amt, r.tot = f[2], f[3], f[4], f[5] == 'true', f[6], f[7]
        rows.append(r)
    return rows


def entries(v):
    """'A:..' / 'B:..;..' -> list of (symbol or None, Fraction)"""
    if v.startswith('B:'):
        parts = v[2:].split(';') if v[2:] else []
    elif re.fullmatch(r'I:-?\d+', v):
        return [(None, F(int(v[2:])))]          # an integer (the amount of a posting whose post.amount is null: 0)
    else:
        parts = [v]
    out = []
    for p in parts:
        m = re.fullmatch(r'A:([0-9a-f]*):(-?\d+)/(\d+):(\d+):([01])', p)
        if not m:
            raise ValueError('amount %r' % v)
        sym = bytes.fromhex(m.group(1)) if m.group(1) else None
        out.append((sym, F(int(m.group(2)), int(m.group(3)))))
    return out


def vec(v):
    d = {}
    for s, q in entries(v):
        d[s] = d.get(s, 0) + q
    return {s: q for s, q in d.items() if q != 0}


def vadd(a, b):
    d = dict(a)
    for s, q in b.items():
        d[s] = d.get(s, 0) + q
    return {s: q for s, q in d.items() if q != 0}


def vsum(rows):
    t = {}
    for r in rows:
        t = vadd(t, vec(r.amt))
    return t


# ------------------------------------------------------------------------------ correspondence
def canon_payee(o, text):
    if o.grp in ('sub', 'payee+sub', 'dow+sub'):
        m = re.fullmatch(r'- (\d\d)-(\w\w\w)-(\d\d)', text)
        if m:
            d = datetime.datetime.strptime(text[2:], '%y-%b-%d').date()
            return 'U:%d' % (d.toordinal() - EPOCH)
    if o.grp == 'dow' and text in DOW_NAMES:
        return 'W:%d' % DOW_NAMES.index(text)
    return 'N:' + text.encode().hex()


def canon_value(v):
    if v.startswith('B:'):
        return 'B:' + ';'.join(sorted(v[2:].split(';'))) if v[2:] else 'B:'
    return v


def impl_rows(o, rows, where):
    out = []
    for r in rows:
        xid = str(3 * where[r.line]) if r.line in where else 'g'
        out.append([xid, str(r.days), canon_payee(o, r.payee), r.acct.encode().hex(), canon_value(r.amt), canon_value(r.tot)])
    return out


def model_rows(text):
    rows, groups = [], []
    if not text:
        return rows, groups
    for s in text.split('!'):
        f = s.split('|')
        xid = int(f[0])
        groups.append(xid)
        f[0] = str(xid) if xid % 3 == 0 else 'g'
        rows.append(f)
    return rows, groups


def compare(o, impl, mline, where):
    """-> None when ledger and the model agree, else (impl canonical, model canonical)"""
    parts = mline.split(' ', 2)
    status = parts[1]
    body = parts[2] if len(parts) > 2 else ''
    if isinstance(impl, str):
        ic = 'ERR'
        mc = 'ERR' if status == 'ERR' or body == 'ERR' else mline[:400]
        return None if ic == mc else (impl, mc)
    if status == 'ERR' or body == 'ERR':
        return ('%d rows' % len(impl), 'ERR')
    ir = impl_rows(o, impl, where)
    mr, groups = model_rows(body)
    longs = []
    for b in mr:
        if b[2].startswith('F:'):
            # the model says: this label is strftime(NAME) for that date (python's strftime is the
            # same glibc function); from 127 bytes on the content of the 128-byte buffer is undefined
            _, hx, dd = b[2].split(':')
            name = bytes.fromhex(hx)
            if len(name) >= 127:
                longs.append(name[:100].hex())
                b[2] = '?'
            else:
                b[2] = 'N:' + datetime.date.fromordinal(int(dd) + EPOCH).strftime(name.decode()).encode().hex()
    if longs:
        for a in ir:
            if any(a[2][2:].startswith(h) for h in longs):
                a[2] = '?'
    if status == 'UNSPEC':
        # the comparator is not a strict weak order on these rows: std::stable_sort's result is
        # unspecified; the rows must still be the same multiset (totals depend on the order)
        if o.head is not None or o.tail is not None:
            return None          # which rows survive the window depends on the unspecified order
        a = sorted(tuple(r[:5]) for r in ir)
        b = sorted(tuple(r[:5]) for r in mr)
        return None if a == b else (a, b)
    return None if ir == mr else (['|'.join(r) for r in ir], ['|'.join(r) for r in mr])


# -------------------------------------------------------------------------------------- oracle
def key_cmp(k, a, b):
    """compare two plain-register rows under one sort key, as the property text determines it:
    -1/0/1, or None where the text is silent (an amount without commodity against one with)"""
    if k == 'date':
        x, y = a.days, b.days
    elif k == 'payee':
        x, y = a.payee.encode(), b.payee.encode()
    elif k == 'account':
        x, y = a.acct.encode(), b.acct.encode()
    else:
        ea, eb = entries(a.amt), entries(b.amt)
        if len(ea) != 1 or len(eb) != 1 or not a.amt.startswith('A:') or not b.amt.startswith('A:'):
            return None
        (sa, qa), (sb, qb) = ea[0], eb[0]
        if sa == sb:
            x, y = qa, qb
        elif sa is not None and sb is not None:
            x, y = sa, sb
        else:
            return None
    return -1 if x < y else (1 if x > y else 0)


def rows_cmp(keys, a, b):
    for k in keys:
        inv = k.startswith('-')
        c = key_cmp(k.lstrip('-'), a, b)
        if c is None:
            return None
        if c != 0:
            return -c if inv else c
    return 0


def key_tuple(keys, r):
    t = []
    for k in keys:
        k = k.lstrip('-')
        t.append(r.days if k == 'date' else r.payee if k == 'payee' else r.acct if k == 'account' else tuple(entries(r.amt)))
    return tuple(t)


def totals_are_prefix_sums(rows):
    t = {}
    for r in rows:
        t = vadd(t, vec(r.amt))
        if vec(r.tot) != t:
            return False
    return True


def oracle_sort(o, P, R):
    """the sorted register against the unsorted one -> list of (key, desc, observed, required)"""
    keys = o.sort.split(',')
    out = []
    if isinstance(R, str):
        return [('sort:error', 'reg --sort %s fails' % o.sort, R, 'the postings of the unsorted register')]
    if sorted(r.ident() for r in P) != sorted(r.ident() for r in R):
        return [('sort:not-a-permutation', 'the sorted register does not hold exactly the rows of the unsorted one',
                 [r.ident() for r in R][:8], [r.ident() for r in P][:8])]
    odd = any(k.lstrip('-') == 'amount' for k in keys) and \
        any(any(s is None or q == 0 for s, q in entries(r.amt)) for r in P) and \
        len({s for r in P for s, q in entries(r.amt) if s is not None}) >= 2
    for i in range(len(R)):
        for j in range(i + 1, len(R)):
            if rows_cmp(keys, R[i], R[j]) == 1:
                cls = 'sort:amount:zero-or-bare-amount-among-commodities' if odd else 'sort:order'
                out.append((cls, 'row %d sorts after row %d under %s' % (i, j, o.sort), [R[i].ident(), R[j].ident()],
                            'rows ordered by the sort key'))
                break
        if out:
            break
    for kt in {key_tuple(keys, r) for r in P}:
        a = [r.ident() for r in R if key_tuple(keys, r) == kt]
        b = [r.ident() for r in P if key_tuple(keys, r) == kt]
        if a != b:
            out.append(('sort:amount:zero-or-bare-amount-among-commodities' if odd else 'sort:unstable',
                        'rows with equal sort key changed their relative order', a[:6], b[:6]))
            break
    if not totals_are_prefix_sums(R) or (R and P and vec(R[-1].tot) != vec(P[-1].tot)):
        out.append(('sort:total', 'running / grand total of the sorted register is not the sum of its rows', None, None))
    return out


def group_sizes(o, P, Q):
    """how the rows of a regrouped register Q fall into transactions (generated rows carry no
    line number): one row per transaction under --collapse, one row per account cut at N per
    transaction of the plain register P under --depth N, everything in one transaction under
    --subtotal, one transaction per payee / weekday label under --by-payee / --dow"""
    if o.sort or (o.grp != 'none' and o.coll is not None) or isinstance(P, str):
        return None
    if o.grp == 'sub':
        sizes = [len(Q)] if Q else []
    elif o.grp in ('payee', 'dow'):
        sizes = []
        for i, r in enumerate(Q):
            if i and Q[i - 1].payee == r.payee:
                sizes[-1] += 1
            else:
                sizes.append(1)
    elif o.coll == 0:
        sizes = [1] * len(Q)
    else:
        sizes, last = [], None
        for r in P:
            if r.line != last:
                sizes.append(set())
                last = r.line
            sizes[-1].add(cut_account(r.acct, o.coll))
        sizes = [len(x) for x in sizes]
    return sizes if sum(sizes) == len(Q) else None


def oracle_window(o, Q, R, sizes=None):
    """--head/--tail against the same report without them"""
    if isinstance(R, str) or isinstance(Q, str):
        return [] if R == Q else [('head-tail:error', 'fails with --head/--tail only', R, 'rows')]
    if (o.head is not None and o.head < 0) or (o.tail is not None and o.tail < 0):
        return []
    groups = []
    if sizes is not None:
        i = 0
        for n in sizes:
            groups.append(Q[i:i + n])
            i += n
    elif any(r.line == 0 for r in Q):
        return []
    for r in (Q if sizes is None else []):
        if groups and groups[-1][0].line == r.line:
            groups[-1].append(r)
        else:
            groups.append([r])
    n = len(groups)
    keep = []
    for i, g in enumerate(groups):
        if (o.head is not None and i < o.head) or (o.tail is not None and i >= n - o.tail):
            keep += g
    if [r.full() for r in keep] != [r.full() for r in R]:
        which = 'head' if o.tail is None else ('tail' if o.head is None else 'head+tail')
        return [('head-tail:%s:wrong-window' % which,
                 '%s does not keep exactly the first/last N of %d transactions' % (o.text(), n),
                 [r.full() for r in R][:6], [r.full() for r in keep][:6])]
    return []


def oracle_sort_after(o, Q, R):
    """`reg REGROUP --sort K` against `reg REGROUP`: the same rows (as a multiset), ordered by K, ties in
    the order of the unsorted report, the same grand total"""
    name = (o.grp if o.grp != 'none' else '') + ('collapse' if o.coll == 0 else ('depth' if o.coll else ''))
    if isinstance(R, str) or isinstance(Q, str):
        return [] if R == Q else [('sort-after-%s:error' % name, 'reg %s fails, without --sort it does not' % o.text(), R, 'rows')]
    keys = o.sort.split(',')
    qa, ra = sorted(r.ident() for r in Q), sorted(r.ident() for r in R)
    if qa != ra:
        return [('sort-after-%s:not-a-permutation' % name,
                 'reg %s does not hold exactly the rows of the same report without --sort (%d rows, %d without)' % (o.text(), len(R), len(Q)),
                 [r.ident() for r in R][:8], [r.ident() for r in Q][:8])]
    out = []
    odd = any(k.lstrip('-') == 'amount' for k in keys) and \
        any(any(s_ is None or q == 0 for s_, q in entries(r.amt)) for r in Q) and \
        len({s_ for r in Q for s_, q in entries(r.amt) if s_ is not None}) >= 2
    cls = 'sort:amount:zero-or-bare-amount-among-commodities' if odd else None
    if any(k.lstrip('-') == 'amount' for k in keys) and any(not r.amt.startswith('A:') for r in Q):
        # a multi-commodity row is "not even tried" to be sorted (value.cc:2193): it compares equal to
        # every other row, which leaves the single-commodity rows around it unordered as well
        cls = 'sort:amount:multi-commodity-row-among-amounts'
    for i in range(len(R)):
        if any(rows_cmp(keys, R[i], R[j]) == 1 for j in range(i + 1, len(R))):
            out.append((cls or 'sort-after-%s:order' % name, 'reg %s: row %d sorts after a later row' % (o.text(), i),
                        [r.ident() for r in R][:8], 'rows ordered by the sort key'))
            break
    if not any(k.lstrip('-') == 'amount' and any(not r.amt.startswith('A:') for r in Q) for k in keys):
        for kt in {key_tuple(keys, r) for r in Q}:
            a = [r.ident() for r in R if key_tuple(keys, r) == kt]
            b = [r.ident() for r in Q if key_tuple(keys, r) == kt]
            if a != b:
                out.append((cls or 'sort-after-%s:unstable' % name, 'rows with equal sort key changed their relative order', a[:6], b[:6]))
                break
    if not totals_are_prefix_sums(R) or (R and Q and vec(R[-1].tot) != vec(Q[-1].tot)):
        out.append(('sort-after-%s:total' % name, 'reg %s: running / grand total is not the sum of the rows' % o.text(), None, None))
    return out


def oracle_payee_query(o, P, R):
    """`reg @PATTERN` against the register without it: exactly the rows whose %(payee) matches"""
    if isinstance(R, str):
        return [('payee-query:error', 'reg %s fails' % o.text(), R, 'the rows of the matching payees')]
    want = [r.ident() for r in P if o.pquery.lower() in r.payee.lower()]
    got = [r.ident() for r in R]
    if want != got or not totals_are_prefix_sums(R):
        return [('payee-query:rows', 'reg %s does not select exactly the postings whose register payee matches' % o.text(),
                 got[:8], want[:8])]
    return []


def cut_account(a, n):
    return ':'.join(a.split(':')[:n])


def oracle_regroup(o, P, R):
    """a regrouped register against the plain one (same filter)"""
    name = o.grp if o.grp != 'none' else ('collapse' if o.coll == 0 else 'depth')
    # --by-payee --subtotal / --dow --subtotal: does a row of the first regrouping (a payee's or a
    # weekday's sum on one account, by the members in the plain register) hold two or more commodities?
    compound = ''
    if o.grp.endswith('+sub') and not isinstance(P, str):
        first = {}
        for r in P:
            k = (r.payee if o.grp == 'payee+sub' else datetime.date.fromordinal(r.days + EPOCH).weekday(), r.acct)
            first.setdefault(k, set()).update(sym for sym, q in entries(r.amt))   # zero amounts count: they make a balance too
        if any(len(v) >= 2 for v in first.values()):
            compound = ':multi-commodity-row-of-first-regrouping'
    if isinstance(R, str):
        if isinstance(P, str):
            return []
        mixed = {r.acct for r in P if r.virt} & {r.acct for r in P if not r.virt}
        if R == 'ERR:virtual-mismatch' and mixed:
            # (raised by the first handler of a pair: the key names that one)
            return [('%s:error:virtual-and-real-postings-to-one-account' % name.split('+')[0],
                     'reg %s reports an error instead of the sums' % o.text(), R, 'one row per group')]
        if R == 'ERR:uninitialized-amount' and compound:
            return [('%s:error%s' % (name, compound),
                     'reg %s reports an error instead of the sums' % o.text(), R, 'one row per account')]
        return [('%s:error' % name, 'reg %s fails' % o.text(), R, 'one row per group')]
    if isinstance(P, str):
        return []
    exp = []      # list of groups; a group is a list of (date, payee or None, account or None, vector)
    if o.grp == 'none':
        runs = []
        for r in P:
            if runs and runs[-1][0].line == r.line:
                runs[-1].append(r)
            else:
                runs.append([r])
        for g in runs:
            d = min(r.days for r in g)
            # the row of a merged transaction carries the transaction's payee; a transaction of
            # one posting is shown as that posting (with the posting's payee)
            xp = g[0].xpayee
            if o.coll == 0:
                exp.append([(d, g[0].payee if len(g) == 1 else xp, None, vsum(g))])
            else:
                accts = []
                for r in g:
                    c = cut_account(r.acct, o.coll)
                    if c not in accts:
                        accts.append(c)
                exp.append(sorted(((d, xp, c, vsum([r for r in g if cut_account(r.acct, o.coll) == c])) for c in accts),
                                  key=lambda t: t[2]))
    else:
        if o.grp in ('sub', 'payee+sub', 'dow+sub'):
            # one row per account, labelled with the end of the date range (subtotalling the rows of
            # --by-payee / --dow again merges them per account: the members are the same postings)
            end = datetime.date.fromordinal(max(r.days for r in P) + EPOCH).strftime('- %y-%b-%d') if P else None
            classes = [(end, P)] if P else []
        elif o.grp == 'payee':
            classes = [(p.decode(), [r for r in P if r.payee.encode() == p]) for p in sorted({r.payee.encode() for r in P})]
        else:
            classes = []
            for k in range(7):
                m = [r for r in P if (datetime.date.fromordinal(r.days + EPOCH).weekday() + 1) % 7 == k]
                if m:
                    classes.append((DOW_NAMES[k], m))
        for py, m in classes:
            d = min(r.days for r in m)
            for a in sorted({r.acct.encode() for r in m}):
                exp.append([(d, py, a.decode(), vsum([r for r in m if r.acct.encode() == a]))])
    got = [(r.days, r.payee, r.acct, vec(r.amt)) for r in R]
    flat = [t for g in exp for t in g]
    bad = label = None
    if len(got) != len(flat):
        bad = 'wrong number of rows (%d, expected %d groups)' % (len(got), len(flat))
    else:
        i = 0
        for g in exp:
            blk = sorted(got[i:i + len(g)], key=lambda t: t[2]) if len(g) > 1 else got[i:i + len(g)]
            for (d, py, a, v), (gd, gpy, ga, gv) in zip(g, blk):
                if v != gv:
                    bad = 'a group value is not the exact per-commodity sum of its members'
                elif o.grp == 'payee' and d == gd and a == ga and py != gpy and ('%' in py or len(py.encode()) >= 127):
                    label = (gpy[:200], py[:200])
                elif d != gd or (py is not None and py != gpy) or (a is not None and a != ga):
                    bad = bad or 'a group row carries the wrong date, payee or account'
            i += len(g)
    out = []
    if bad:
        out.append(('%s:group%s' % (name, compound), 'reg %s: %s' % (o.text(), bad), got[:8], flat[:8]))
    if label:
        out.append(('payee:label:percent-sequence-or-overlong-payee',
                    'reg %s does not show the payee name as it is' % o.text(), label[0], label[1]))
    if vsum(R) != vsum(P) or (R and vec(R[-1].tot) != vsum(P)) or not totals_are_prefix_sums(R):
        out.append(('%s:grand-total%s' % (name, compound), 'reg %s: the grand total differs from the plain register' % o.text(),
                    vsum(R), vsum(P)))
    return out


def judge(o, outs):
    """evaluate the property on ledger's outputs for option set o -> (reference rows, findings)"""
    R = outs[o.text()]
    found, ref = [], None
    if o.pquery and not o.sort and not o.regroups() and o.head is None and o.tail is None:
        ref = outs.get(o.but(pquery=None).text())
        if ref is not None and not isinstance(ref, str):
            found = oracle_payee_query(o, ref, R)
    elif o.head is not None or o.tail is not None:
        ref = outs.get(o.but(head=None, tail=None).text())
        if ref is not None:
            sizes = None
            if o.regroups() and not isinstance(ref, str):
                P = outs.get(o.but(head=None, tail=None, grp='none', coll=None, sort=None).text())
                sizes = group_sizes(o, P, ref) if P is not None else None
            found = oracle_window(o, ref, R, sizes)
    elif o.sort and o.regroups():
        ref = outs.get(o.but(sort=None).text())
        if ref is not None:
            found = oracle_sort_after(o, ref, R)
    elif o.sort and not o.regroups():
        ref = outs.get(o.but(sort=None).text())
        if ref is not None and not isinstance(ref, str):
            found = oracle_sort(o, ref, R)
    elif o.regroups() and not o.sort and not (o.grp != 'none' and o.coll is not None):
        ref = outs.get(o.but(grp='none', coll=None).text())
        if ref is not None:
            found = oracle_regroup(o, ref, R)
    elif isinstance(R, str) and R != 'ERR:virtual-mismatch':
        found = [('report:error', 'reg %s fails' % o.text(), R, 'a register')]
    return ref, found


# ------------------------------------------------------------------------------------- the run
def pick_filters(rng, xs):
    accts = {p['acct'] for x in xs for p in x['posts']}
    fs = [Opt()]
    for _ in range(2):
        k = rng.randrange(4)
        if k == 0:
            fs.append(Opt(real=True))
        elif k == 1:
            fs.append(Opt(state=rng.choice([1, 1, 2, 3])))
        elif k == 2:
            pat = rng.choice(PATTERNS)
            if all((pat in a) == (pat.lower() in a.lower()) for a in accts):
                fs.append(Opt(query=pat, real=rng.random() < 0.2))
        elif k == 3:
            fs.append(Opt(real=True, state=1))
    eff = {post_payee(x, p) for x in xs for p in x['posts']}
    if rng.random() < 0.5:
        for pat in rng.sample(PAYEE_PATTERNS, len(PAYEE_PATTERNS)):
            if all((pat in e) == (pat.lower() in e.lower()) for e in eff):
                fs.append(Opt(pquery=pat))
                break
    return fs[:1] + rng.sample(fs[1:], min(len(fs) - 1, 1 if rng.random() < 0.6 else 2))


def cases_for(rng, xs, thorough):
    nx = len(xs)
    out = []
    for f in pick_filters(rng, xs):
        out.append(f)
        for s in rng.sample(SORTS, 5 if not thorough else 8):
            out.append(f.but(sort=s))
        ns = list(range(0, nx + 3))
        for n in (ns if nx <= 3 or thorough else rng.sample(ns, 4) + [0, nx]):
            out.append(f.but(head=n))
            out.append(f.but(tail=n))
        for _ in range(3):
            out.append(f.but(head=rng.choice(ns), tail=rng.choice(ns)))
        out.append(f.but(head=rng.choice([-1, -2, -nx, -nx - 1])))
        out.append(f.but(tail=rng.choice([-1, -2, -nx, -nx - 1])))
        for g in (dict(coll=0), dict(grp='sub'), dict(grp='payee'), dict(grp='dow'), dict(coll=1), dict(coll=2), dict(coll=3)):
            out.append(f.but(**g))
        # combinations, in the order of the chain: every regrouping option followed by --sort and by
        # --head/--tail (keys that separate the postings of a transaction included)
        odd_payee = any('%' in e or len(e) >= 127 for e in {post_payee(x, p) for x in xs for p in x['posts']})
        out.append(f.but(sort=rng.choice(SORTS), head=rng.choice(ns)))
        out.append(f.but(sort=rng.choice(SORTS), tail=rng.choice(ns)))
        for g in (dict(coll=0), dict(grp='sub'), dict(grp='payee'), dict(grp='dow'), dict(coll=1), dict(coll=2), dict(coll=3)):
            keys = ['amount', '-amount', 'account', '-account', 'date', '-date', 'account,-amount', '-amount,account', 'date,amount']
            if g.get('grp') in (None, 'payee') and not (g.get('grp') == 'payee' and odd_payee):
                keys += ['payee', '-payee,date', 'payee,-account', 'amount,payee']
            for k in rng.sample(keys, 4 if thorough else 2):
                out.append(f.but(sort=k, **g))
            out.append(f.but(head=rng.choice(ns), **g))
            out.append(f.but(tail=rng.choice(ns), **g))
            if rng.random() < 0.3:
                out.append(f.but(head=rng.choice(ns), tail=rng.choice(ns), **g))
        out.append(f.but(grp=rng.choice(['payee', 'dow', 'sub']), coll=rng.choice([0, 0, 1, 2])))
        # two regrouping options: subtotal_posts behind by_payee_posts / day_of_week_posts
        out.append(f.but(grp='payee+sub'))
        out.append(f.but(grp='dow+sub'))
    return out


def run(ctx, n_override=None, oracle_only=False):
    rng = ctx.rng
    res = lib.Result()
    res.rule = ('generated journals (0-15 transactions of 1-6 postings, 1-4 commodities, repeated payees/dates/amounts, '
                'virtual postings, posting states, 10-30% of the postings naming their own payee; an "odd" profile adds zero amounts, amounts without commodity and accounts '
                'used both virtually and really) x option sets (--sort over 17 key lists, --head/--tail N for N in 0..count+2 '
                'and negative, --collapse/--subtotal/--by-payee/--dow/--depth 1-3, --by-payee --subtotal, --dow --subtotal, alone, with --real/--cleared/--pending/'
                'an account query/a payee query, and combined in chain order); a case is non-trivial when the option changes the rows of '
                'the reference register, or N lies strictly inside 0..count; distinct by journal text + option text')
    nj = n_override or ctx.scale(150, 800)
    thorough = ctx.tier == 'thorough'
    all_model_lines, pending = [], []
    for j in range(nj):
        profile = rng.choice(['std', 'std', 'std', 'odd', 'big'])
        xs = gen_journal(rng, profile)
        text, where = render_journal(xs)
        path = ctx.path('j%d.dat' % (j % 8))
        open(path, 'w').write(text)
        opts = cases_for(rng, xs, thorough)
        seen, uniq = set(), []
        for o in opts:
            if o.text() not in seen:
                seen.add(o.text())
                uniq.append(o)
        cmds = ["reg --format '%s' --empty %s" % (FMT, ' '.join(o.args())) for o in uniq]
        blocks = lib.run_repl(path, cmds)
        outs = {}
        for o, b in zip(uniq, blocks):
            outs[o.text()] = parse_block(b)
        psx = posts_sx(xs)
        plain = outs.get(Opt().text())
        if isinstance(plain, list) and len(plain) == len(psx):
            fed = [bytes.fromhex(lib.sx(q[2])).decode() if q[2] else '' for q in psx]
            if fed != [r.payee for r in plain]:
                res.disagreements.append(dict(name='C17/payee-feed', case=dict(journal=text, args=[]),
                                              impl=str([r.payee for r in plain])[:1500], model=str(fed)[:1500]))
        for k, o in enumerate(uniq):
            all_model_lines.append(lib.sx(['case', 'j%dc%d' % (j, k), o.sx(), ['posts'] + psx]))
            pending.append((j, k, o, outs[o.text()], where, text))
        # ---- oracle
        for o in uniq:
            R = outs[o.text()]
            res.evaluations += 1
            res.count('profile:' + profile)
            kind = ('sort' if o.sort else '') + ('+window' if (o.head is not None or o.tail is not None) else '') + \
                   ('+' + (o.grp if o.grp != 'none' else '') + ('collapse' if o.coll == 0 else ('depth' if o.coll else '')) if o.regroups() else '')
            res.count('option:' + (kind.strip('+') or 'plain'))
            res.count('filter:' + ((('real' if o.real else '') + ('state%d' % o.state if o.state else '') + ('query' if o.query else '') + ('payee-query' if o.pquery else '')) or 'none'))
            ref, found = judge(o, outs)
            if ref is not None and not isinstance(ref, str) and not isinstance(R, str):
                nrun = len({r.line for r in ref})
                inner = (o.head is not None and 0 < o.head < nrun) or (o.tail is not None and 0 < o.tail < nrun)
                if inner or [r.full() for r in ref] != [r.full() for r in R]:
                    res.nontrivial.add('%s\n%s' % (text, o.text()))
            for key, desc, obs, req in found:
                res.violations.append(dict(key=key, desc=desc, case=dict(journal=text, args=o.args(), opt=dict(o.__dict__)),
                                           observed=str(obs)[:1500], required=str(req)[:1500]))
            if len(res.samples) < 4 and o.regroups() and not isinstance(R, str) and len(R) > 2:
                res.samples.append(dict(journal=text[:600], args=o.args(), rows=[r.full() for r in R][:4]))
    if oracle_only:
        return res
    # ---- correspondence
    mlines = lib.run_model('C17', all_model_lines)
    for (j, k, o, impl, where, text), ml in zip(pending, mlines):
        res.traces += 1
        if ml.startswith('!driver-error') or not ml.startswith('j%dc%d ' % (j, k)):
            res.disagreements.append(dict(name='C17/driver', case=dict(journal=text, args=o.args()), impl=None, model=ml[:300]))
            continue
        if ' UNSPEC' in ml[:24]:
            res.count('model:order-unspecified')
        d = compare(o, impl, ml, where)
        if d:
            res.disagreements.append(dict(name='C17/rows', case=dict(journal=text, args=o.args()),
                                          impl=str(d[0])[:2500], model=str(d[1])[:2500]))
    return res


def search(ctx, broken):
    import random
    for s in range(4):
        ctx.rng = random.Random('C17-search-%d-%d' % (ctx.seed, s))
        r = run(ctx, n_override=250, oracle_only=True)
        if r.violations:
            return r.violations
    return []


def replay(ctx, obj):
    res = lib.Result()
    case = obj.get('case') or {}
    if 'journal' in case and 'opt' in case:
        path = ctx.path('replay.dat')
        open(path, 'w').write(case['journal'])
        o = Opt(**case['opt'])
        todo = [o, o.but(head=None, tail=None), o.but(sort=None), o.but(grp='none', coll=None), o.but(pquery=None),
                o.but(head=None, tail=None, grp='none', coll=None, sort=None)]
        outs = {}
        for x in todo:
            if x.text() not in outs:
                b = lib.run_repl(path, ["reg --format '%s' --empty %s" % (FMT, ' '.join(x.args()))])
                outs[x.text()] = parse_block(b[0])
                print('replay: reg --empty %s\n%s' % (x.text(), b[0]))
        ref, found = judge(o, outs)
        print('required: %s' % obj.get('required'))
        for key, desc, obs, req in found:
            res.violations.append(dict(key=key, desc=desc))
    return res
