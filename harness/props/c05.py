"""C05 - balance, register and account-tree totals agree.
Correspondence: generated accepted journals (account trees of depth 1-6, 1-5 commodities, lot
annotations, @/@@ costs, (virtual) and [balanced virtual] postings, cleared/pending flags) x random
option sets; every `bal` row (account order, exact total, lot-stripped display total, own amount),
the total line, every `reg` row (exact amount, exact running total, stripped forms, whether the row
is printed without --empty) and the per-transaction collapsed rows of `reg --depth n` are compared
with the extracted Coq model (Model/Totals.v).
Oracle: the identities of the property text evaluated with Fractions across ledger's own outputs
(bal vs reg), written from the text, not from the model."""
import re
from fractions import Fraction as F
import lib

META = dict(
    id='C05',
    level='proof',
    technique='Coq proof (account-tree totals, running totals and lot stripping of the report model refine per-commodity sums over the selected postings) + differential correspondence of the extracted model against ledger bal/reg + Fractions oracle across bal and reg',
    level_text='Theorems in coq/Properties/Properties_C05.v state, for all posting lists and all option records, that the model of account_t::amount/total, calc_posts, the limit predicates, the -B amount expression and strip_annotations satisfies: an account total is the per-commodity sum over the selected postings of its sub-tree; a parent total is its own amount plus its children\'s totals; the n-th running total is the sum of the first n row amounts and the last one is the grand total; the balance of an account equals the sum of the register rows under it (parametric in the selection predicate and the amount expression, so for every option combination); --flat/--depth/--empty only choose rows; stripping lots preserves every per-base-commodity sum. Model/Deferred.v transcribes how postings reach account->posts (add_post, or add_deferred_post keyed by the transaction id and apply_deferred_posts for `<Account>` postings, shape facts regenerated into Gen/DeferredPosts.v): account->posts of every account is a permutation of the journal\'s postings to it, so every identity also holds between the balance over account->posts and the register over xact->posts. The model is tied to the code by comparing every bal row, total line and reg row (exact rationals, precision counters, row order, which rows are printed) of freshly built ledger with the extracted model on thousands of generated (journal, option set) pairs.',
    level_note='Trusted: Coq kernel; extraction + OCaml driver and the python harness for the correspondence; the journal reader and xact_t::finalize are outside the model (the model input is the posting list as finalize leaves it, predicted by the harness: lot annotation {price} [date] from a cost, cost = per-unit x quantity with summed precision) and are validated through the same comparison; account/payee patterns are literal case-insensitive substrings; unordered_map / pointer-ordered map iteration orders are unspecified (results that depend on them are compared as sets).',
    design_ref='DESIGN.md section 7 C05',
    assumptions=['directives in the generated journals: bucket / A / account+default, apply account (one level), alias (defined at top level), year / Y, apply tag',
                 'query patterns are literal [A-Za-z0-9] substrings (regex = substring)',
                 'commodity symbols avoid the predefined time commodities s/m/h',
                 'transaction ids are distinct (a second transaction with the UUID of an earlier one is outside the model)',
                 'a posting carries either a lot annotation or a cost, not both (the gain/loss adjustment of finalize is C01 territory)'],
)

NOW = '2021/06/15'

# ---------------------------------------------------------------------------------- generation

COMMS = [('$', 'pre', 2), ('EUR', 'suf', 2), ('AAA', 'suf', 0), ('BTC', 'suf', 4), ('CAD', 'suf', 2), ('XY', 'suf', 1)]
SEGS = ['Assets', 'Bank', 'Bank2', 'Checking', 'Sav', 'A', 'Ab', 'b', 'Exp', 'Food', 'food', 'Rent', 'X1', 'Broker', 'Lot']
PAYEES = ['Opening', 'Grocery Store', 'Rent', 'acme corp', 'ACME Payroll', 'Broker Fee', 'x']
QUERIES = ['Assets', 'bank', 'Bank2', 'A', 'b', 'ood', 'ROK', 'X1', 'Exp', 'Rent', 'zz']
PQUERIES = ['acme', 'Rent', 'o', 'Store', 'zz', 'x']


def dec_text(q, dec):
    """q (Fraction, exactly representable with `dec` decimals) as decimal text"""
    n = q * 10 ** dec
    assert n.denominator == 1, (q, dec)
    n = n.numerator
    s = str(abs(n)).rjust(dec + 1, '0')
    if dec:
        s = s[:-dec] + '.' + s[-dec:]
    return ('-' if n < 0 else '') + s


def need_dec(q, least=0):
    d = least
    while (q * 10 ** d).denominator != 1:
        d += 1
        assert d < 40
    return d


def amt_text(q, dec, sym, side):
    t = dec_text(q, dec)
    if side == 'pre':
        return ('-' + sym + t[1:]) if t.startswith('-') else (sym + t)
    return t + ' ' + sym


class Post:
    __slots__ = ('acct', 'virt', 'state', 'q', 'dec', 'comm', 'lot', 'cost', 'inferred', 'rname', 'deferred', 'gen')

    def __init__(self, acct, virt, state, q, dec, comm, lot=None, cost=None, inferred=False, rname=None,
                 deferred=False, gen=0):
        self.acct, self.virt, self.state, self.q, self.dec, self.comm = acct, virt, state, q, dec, comm
        self.deferred = deferred   # POST_DEFERRED: written <Account>; reaches account->posts at the end of the parse
        self.gen = gen             # 0 written with its amount | 1 written WITHOUT amount (finalize computes it)
                                   # | 2 not written: the further balancing postings finalize generates
        self.inferred = inferred   # ITEM_INFERRED: added by finalize() for the default account, not written
        self.rname = rname         # the account as written (alias, or inside `apply account`)
        self.lot = lot        # None | dict(price=(q, dec, comm) | None, date=str | None, tag=str | None)
        self.cost = cost      # None | (kind '@'|'@@', q >= 0, dec, comm)


def price_key(pr):
    q, _, comm = pr
    return '%s%d/%d' % (comm[0], q.numerator, q.denominator)


def comm_key(p, xdate):
    """the commodity key of post.amount after finalize: base or base~price~date~tag"""
    base = p.comm[0]
    if p.lot is not None:
        pr = price_key(p.lot['price']) if p.lot.get('price') else ''
        return '%s~%s~%s~%s' % (base, pr, p.lot.get('date') or '', p.lot.get('tag') or '')
    if p.cost is not None:
        kind, cq, cdec, ccomm = p.cost
        unit = cq if kind == '@' else abs(cq / p.q)
        # price and date computed by finalize: ANNOTATION_PRICE_CALCULATED / DATE_CALCULATED.
        # The hook prints only the written details, so these two fields are marked with '!'
        # (the model treats the fields as opaque text) and dropped when the model's keys are
        # spelled the way the hook prints them (printed_key).
        return '%s~!%s~!%s~' % (base, price_key((unit, 0, ccomm)), xdate)
    return base


def printed_key(k):
    f = k.split('~')
    if len(f) != 4:
        return k
    g = [f[0]] + [('' if x.startswith('!') else x) for x in f[1:]]
    return g[0] if not (g[1] or g[2] or g[3]) else '~'.join(g)


def model_value(s):
    """a value printed by the model driver, with its keys spelled as the hook prints them"""
    def one(part):
        m = re.fullmatch(r'A:([0-9a-f]*):(.*)', part)
        if not m:
            return part
        return 'A:%s:%s' % (printed_key(bytes.fromhex(m.group(1)).decode('utf-8', 'replace')).encode().hex(), m.group(2))
    if s.startswith('B:'):
        return 'B:' + ';'.join(sorted(one(p) for p in s[2:].split(';'))) if s[2:] else s
    if s.startswith('A:'):
        return one(s)
    return s


def model_line(l):
    if l.startswith('lay'):
        return l
    if l.startswith('grand '):
        return 'grand ' + '|'.join(model_value(x) for x in l[6:].split('|'))
    f = l.split('|')
    return '|'.join([f[0]] + [model_value(x) for x in f[1:]])


def total_cost(p):
    """post.cost as textual.cc leaves it: (quantity, precision)"""
    kind, cq, cdec, ccomm = p.cost
    if kind == '@':
        return cq * p.q, cdec + p.dec
    return (-cq if p.q < 0 else cq), cdec


def gen_accounts(rng):
    n = rng.choice([2, 3, 4, 5, 6, 8])
    maxd = rng.choice([1, 2, 3, 3, 4, 5, 6])
    accts = []
    for _ in range(n):
        if accts and rng.random() < 0.6:
            base = list(rng.choice(accts))
            k = rng.randrange(0, len(base) + 1)
            a = base[:k]
        else:
            a = []
        d = rng.randrange(max(1, len(a)), maxd + 1) if len(a) < maxd else len(a)
        while len(a) < max(1, d):
            a.append(rng.choice(SEGS))
        accts.append(tuple(a))
    return sorted(set(accts))


def gen_quantity(rng, dec):
    if rng.random() < 0.04:
        return F(0)
    n = rng.choice([1, 2, 3, 5, 7, 10, 12, 25, 100, 333, 1999, 12345])
    if rng.random() < 0.5:
        n = rng.randrange(1, 100000)
    q = F(n, 10 ** dec)
    if dec and rng.random() < 0.4:
        q = F(rng.randrange(1, 500))
    return -q if rng.random() < 0.35 else q


def gen_journal(rng):
    comms = rng.sample(COMMS, rng.choice([1, 2, 2, 3, 3, 4, 5]))
    accts = gen_accounts(rng)
    nx = rng.choice([1, 2, 3, 4, 6, 8, 12])
    xacts = []
    lots_seen = []
    for xi in range(nx):
        date = '2020/%02d/%02d' % (rng.randrange(1, 13), rng.randrange(1, 29))
        xstate = rng.choice(['u', 'u', 'c', 'p'])
        payee = '%s %d' % (rng.choice(PAYEES), xi)
        posts = []
        resid = {}     # balancing key -> [Fraction, comm, lot]

        def addres(key, q, comm, lot):
            e = resid.setdefault(key, [F(0), comm, lot])
            e[0] += q

        for _ in range(rng.choice([1, 1, 2, 2, 3, 4])):
            comm = rng.choice(comms)
            dec = comm[2] if rng.random() < 0.85 else comm[2] + rng.choice([1, 2])
            q = gen_quantity(rng, dec)
            acct = rng.choice(accts)
            st = rng.choice(['u', 'u', 'u', 'c', 'p'])
            r = rng.random()
            others = [c for c in comms if c != comm]
            if r < 0.22 and others and q != 0:
                # a cost: per unit or total
                cc = rng.choice(others)
                cdec = cc[2] + rng.choice([0, 0, 1])
                unit = F(rng.randrange(1, 5000), 10 ** cdec)
                if rng.random() < 0.5:
                    cost = ('@', unit, cdec, cc)
                else:
                    tot = unit * abs(q)
                    cost = ('@@', tot, need_dec(tot, cc[2]), cc)
                p = Post(acct, 0, st, q, dec, comm, cost=cost)
                tq, _ = total_cost(p)
                addres(cc[0], tq, cc, None)
                posts.append(p)
            elif r < 0.40:
                if lots_seen and rng.random() < 0.5:
                    comm, lot = rng.choice(lots_seen)
                    if comm not in comms:
                        comm, lot = rng.choice(comms), None
                else:
                    lot = None
                if lot is None:
                    oc = [c for c in COMMS if c != comm]
                    pc = rng.choice(oc)
                    lot = dict(price=(F(rng.randrange(1, 900), 10 ** pc[2]), pc[2], pc) if rng.random() < 0.85 else None,
                               date=('2019/%02d/%02d' % (rng.randrange(1, 13), rng.randrange(1, 29))) if rng.random() < 0.5 else None,
                               tag=rng.choice(['lot1', 'old lot', 'k']) if rng.random() < 0.35 else None)
                    if not (lot['price'] or lot['date'] or lot['tag']):
                        lot['date'] = '2019/03/04'
                    lots_seen.append((comm, lot))
                dec = comm[2]
                q = gen_quantity(rng, dec)
                p = Post(acct, 0, st, q, dec, comm, lot=lot)
                addres(comm_key(p, date), q, comm, lot)
                posts.append(p)
            else:
                p = Post(acct, 0, st, q, dec, comm)
                addres(comm[0], q, comm, None)
                posts.append(p)
        # balancing postings, one per commodity with a residual
        for key, (rq, comm, lot) in sorted(resid.items()):
            if rq == 0 and rng.random() < 0.8:
                continue
            acct = rng.choice(accts)
            posts.append(Post(acct, 0, rng.choice(['u', 'u', 'c', 'p']), -rq, need_dec(rq, comm[2]), comm, lot=lot))
        if not posts:
            comm = comms[0]
            posts = [Post(rng.choice(accts), 0, 'u', F(1), comm[2], comm), Post(rng.choice(accts), 0, 'u', F(-1), comm[2], comm)]
        # virtual postings
        if rng.random() < 0.35:
            comm = rng.choice(comms)
            posts.insert(rng.randrange(len(posts) + 1),
                         Post(rng.choice(accts), 1, rng.choice(['u', 'c', 'p']), gen_quantity(rng, comm[2]), comm[2], comm))
        if rng.random() < 0.25:
            comm = rng.choice(comms)
            q = gen_quantity(rng, comm[2])
            posts.append(Post(rng.choice(accts), 2, rng.choice(['u', 'c']), q, comm[2], comm))
            posts.append(Post(rng.choice(accts), 2, 'u', -q, comm[2], comm))
        xacts.append(dict(date=date, state=xstate, payee=payee, posts=posts))
    return dict(comms=comms, accts=accts, xacts=xacts)


def gen_directed(rng):
    """shapes aimed at the model's case splits: a cost that displays as zero without being zero
    (precision above the commodity's), a total that cancels to zero in one commodity, a chain
    of single-child accounts, an account that is a string prefix but not a parent of another"""
    j = gen_journal(rng)
    k = rng.randrange(4)
    usd, aaa = COMMS[0], COMMS[2]
    if k == 0:
        q = F(rng.randrange(1, 9), 1000)
        u = F(rng.randrange(1, 9), 100)
        j['xacts'].append(dict(date='2020/06/01', state='u', payee='tiny 90', posts=[
            Post(('Assets', 'Tiny'), 0, 'u', q, 3, COMMS[3], cost=('@', u, 2, usd)),
            Post(('Assets', 'Tiny', 'Off'), 0, 'u', -q, 3, COMMS[3], cost=('@', u, 2, usd)),
            Post(('Assets', 'Bank'), 0, 'u', F(5), 2, usd), Post(('Exp',), 0, 'c', F(-5), 2, usd)]))
        j['comms'] = list({c: 1 for c in j['comms'] + [usd, COMMS[3]]})
    elif k == 1:
        q = F(rng.randrange(1, 500))
        j['xacts'].append(dict(date='2020/06/02', state='c', payee='cancel 91', posts=[
            Post(('Assets', 'Bank', 'Checking'), 0, 'u', q, 0, aaa), Post(('Assets', 'Bank', 'Sav'), 0, 'u', -q, 0, aaa),
            Post(('Assets', 'Bank'), 0, 'u', F(3), 2, usd), Post(('Exp', 'Food'), 0, 'p', F(-3), 2, usd)]))
        j['comms'] = list({c: 1 for c in j['comms'] + [usd, aaa]})
    elif k == 2:
        chain = tuple(rng.choice(SEGS) for _ in range(6))
        j['xacts'].append(dict(date='2020/06/03', state='u', payee='chain 92', posts=[
            Post(chain, 0, 'u', F(7), 2, usd), Post(chain[:3], 0, 'u', F(-7), 2, usd)]))
        j['comms'] = list({c: 1 for c in j['comms'] + [usd]})
    else:
        j['xacts'].append(dict(date='2020/06/04', state='p', payee='prefix 93', posts=[
            Post(('Assets', 'Bank'), 0, 'u', F(11), 2, usd), Post(('Assets', 'Bank2'), 0, 'u', F(-4), 2, usd),
            Post(('Assets', 'Bank', 'b'), 0, 'c', F(-7), 2, usd)]))
        j['comms'] = list({c: 1 for c in j['comms'] + [usd]})
    j['accts'] = sorted({p.acct for x in j['xacts'] for p in x['posts']})
    return j


def gen_tree_journal(rng):
    """the display pass: trees 2-5 deep with single-child chains, parents with and without own
    postings, the own postings of a parent in another state / virtual / under another payee than
    its descendants', so that a filter removes all of a displayed parent's own postings"""
    comm = rng.choice(COMMS[:2] + COMMS[4:5])
    depth = rng.choice([2, 3, 3, 4, 5])
    chain = tuple(rng.sample(SEGS, depth))
    accts = [chain[:k] for k in range(1, depth + 1)]
    # side branches
    for _ in range(rng.choice([0, 1, 1, 2, 3])):
        base = rng.choice(accts)
        accts.append(base[:rng.randrange(0, len(base))] + (rng.choice(SEGS),))
    accts = sorted(set(accts))
    other = ('Equity',)
    own = {a: rng.random() < 0.7 for a in accts}
    own[chain] = True
    xacts = []
    xi = 0
    for a in accts:
        if not own[a]:
            continue
        for _ in range(rng.choice([1, 1, 2])):
            st = rng.choice(['u', 'c', 'p'])
            virt = 1 if rng.random() < 0.25 else 0
            q = F(rng.randrange(1, 5000), 100)
            posts = [Post(a, virt, 'u', q, 2, comm)]
            if not virt:
                posts.append(Post(other if rng.random() < 0.7 else rng.choice(accts), 0, 'u', -q, 2, comm))
            else:
                q2 = F(rng.randrange(1, 900), 100)
                posts += [Post(other, 0, 'u', q2, 2, comm), Post(rng.choice(accts), 0, 'u', -q2, 2, comm)]
            xacts.append(dict(date='2020/%02d/%02d' % (rng.randrange(1, 13), rng.randrange(1, 29)),
                              state=st, payee='%s %d' % (rng.choice(PAYEES), xi), posts=posts))
            xi += 1
    rng.shuffle(xacts)
    return dict(comms=[comm], accts=sorted({p.acct for x in xacts for p in x['posts']}), xacts=xacts)


def gen_bucket_journal(rng):
    """directives as part of the input: a default account in its three spellings (`bucket X`,
    `A X`, `account X` + `default`), single-posting transactions that finalize() completes with an
    inferred posting to it (mixed states, dates, payees, commodities, costs, lots, [virtual]),
    `apply account ROOT` around all or part of the journal, `alias`, `year`/`Y` with short dates,
    `apply tag`.  The model sees the completed transactions."""
    comms = rng.sample(COMMS, rng.choice([1, 2, 2, 3]))
    accts = gen_accounts(rng)

    def bucket_dir(name):
        k = rng.randrange(3)
        return ['bucket ' + name] if k == 0 else ['A ' + name] if k == 1 else ['account ' + name, '    default', '']

    def new_bucket():
        if rng.random() < 0.4:
            base = rng.choice(accts)
            return tuple(base[:rng.randrange(1, len(base) + 1)]) + ((rng.choice(SEGS),) if rng.random() < 0.5 else ())
        return tuple(rng.sample(SEGS, rng.choice([1, 2, 3])))

    header = []
    aliases = {}
    if rng.random() < 0.4:
        tgt = rng.choice(accts)
        aliases['AL'] = tgt
        header.append('alias AL=' + ':'.join(tgt))
    short_dates = rng.random() < 0.4
    if short_dates:
        header.append(rng.choice(['year 2020', 'Y 2020']))
    root = None
    mode = rng.choice(['none', 'none', 'all', 'part'])
    nx = rng.choice([3, 4, 6, 8, 10])
    part_from, part_to = sorted(rng.sample(range(nx + 1), 2)) if mode == 'part' else (0, nx if mode == 'all' else 0)
    rootname = rng.choice(['Root', 'Assets', 'R2'])
    bucket_raw = new_bucket()
    bucket_in_root = (mode == 'all' and rng.random() < 0.6)
    bucket = ((rootname,) + bucket_raw) if bucket_in_root else bucket_raw
    if not bucket_in_root:
        header += bucket_dir(':'.join(bucket_raw))
    if header:
        header.append('')
    xacts = []
    tag_open = False
    for xi in range(nx):
        pre = []
        if mode != 'none' and xi == part_from:
            if tag_open:             # blocks nest: close the tag block before opening the account block
                pre += ['end apply tag', '']
                tag_open = False
            pre.append('apply account ' + rootname)
            if bucket_in_root:
                pre += bucket_dir(':'.join(bucket_raw))
            pre.append('')
        inroot = mode != 'none' and part_from <= xi < part_to
        if not tag_open and rng.random() < 0.15:
            pre += ['apply tag t%d' % xi, '']
            tag_open = True
        if xi > 0 and rng.random() < 0.12:
            # the default account changes
            bucket_raw = new_bucket()
            bucket = ((rootname,) + bucket_raw) if inroot else bucket_raw
            pre += bucket_dir(':'.join(bucket_raw)) + ['']

        def mk(acct, *a, **kw):
            """a written posting: its model account (alias / apply account resolved) and its spelling"""
            if aliases and acct == aliases['AL'] and rng.random() < 0.6:
                return Post(acct, *a, rname='AL', **kw)
            if inroot:
                return Post((rootname,) + tuple(acct), *a, rname=':'.join(acct), **kw)
            return Post(acct, *a, **kw)

        date = '2020/%02d/%02d' % (rng.randrange(1, 13), rng.randrange(1, 29))
        xstate = rng.choice(['u', 'u', 'c', 'p'])
        pst = rng.choice(['u', 'u', 'c', 'p'])
        comm = rng.choice(comms)
        q = gen_quantity(rng, comm[2])
        if q == 0:
            q = F(1)
        acct = rng.choice(accts)
        r = rng.random()
        posts = []
        if r < 0.7:
            # a single posting; finalize() adds the inferred one
            k = rng.random()
            others = [c for c in comms if c != comm]
            if k < 0.2 and others:
                cc = rng.choice(others)
                cdec = cc[2] + rng.choice([0, 1])
                unit = F(rng.randrange(1, 5000), 10 ** cdec)
                if rng.random() < 0.5:
                    cost = ('@', unit, cdec, cc)
                else:
                    tot = unit * abs(q)
                    cost = ('@@', tot, need_dec(tot, cc[2]), cc)
                p = mk(acct, 0, pst, q, comm[2], comm, cost=cost)
                tq, tprec = total_cost(p)
                inf = Post(bucket, 0, pst, -tq, tprec, cc, inferred=True)
            elif k < 0.3:
                pc = rng.choice([c for c in COMMS if c != comm])
                lot = dict(price=(F(rng.randrange(1, 900), 10 ** pc[2]), pc[2], pc), date=None, tag=None)
                p = mk(acct, 0, pst, q, comm[2], comm, lot=lot)
                inf = Post(bucket, 0, pst, -q, comm[2], comm, lot=lot, inferred=True)
            elif k < 0.4:
                p = mk(acct, 2, pst, q, comm[2], comm)
                inf = Post(bucket, 0, pst, -q, comm[2], comm, inferred=True)
            elif k < 0.45:
                p = mk(acct, 1, pst, q, comm[2], comm)
                inf = None          # (A) does not have to balance: nothing is inferred
            else:
                dec = comm[2] + rng.choice([0, 0, 0, 1])
                q = gen_quantity(rng, dec) or F(1)
                p = mk(acct, 0, pst, q, dec, comm)
                inf = Post(bucket, 0, pst, -q, dec, comm, inferred=True)
            posts = [p] + ([inf] if inf is not None else [])
            if inf is not None and pst == 'u':
                # _state of the written posting after parse_post: the transaction's when it has none
                inf.state = 'u'
        else:
            posts = [mk(acct, 0, pst, q, comm[2], comm),
                     mk(rng.choice(accts), 0, rng.choice(['u', 'c', 'p']), -q, comm[2], comm)]
            if rng.random() < 0.3:
                posts.insert(1, mk(rng.choice(accts), 1, 'u', F(rng.randrange(1, 99)), comm[2], comm))
        x = dict(date=date, state=xstate, payee='%s %d' % (rng.choice(PAYEES), xi), posts=posts, pre=pre)
        if short_dates and rng.random() < 0.7:
            x['date_text'] = date[5:]
        post_lines = []
        if tag_open and rng.random() < 0.4:
            post_lines += ['end apply tag', '']
            tag_open = False
        if mode != 'none' and xi == part_to - 1:
            if tag_open:
                post_lines += ['end apply tag', '']
                tag_open = False
            post_lines += ['end apply account', '']
            if bucket_in_root:
                pass
            elif True:
                pass
        x['post_lines'] = post_lines
        xacts.append(x)
    footer = ['end apply tag'] if tag_open else []
    return dict(comms=comms, accts=sorted({p.acct for x in xacts for p in x['posts']}), xacts=xacts,
                header=header, footer=footer)


def gen_bucket_opts(rng, j):
    o = gen_opts(rng) if rng.random() < 0.4 else Opt()
    r = rng.random()
    if r < 0.4:
        o.state = rng.choice(['cleared', 'uncleared', 'pending'])
    elif r < 0.55:
        o.query = [('payee', rng.choice(PQUERIES + ['Rent', 'Opening', 'acme']))]
    elif r < 0.7:
        o.begin = '2020/%02d/%02d' % (rng.randrange(1, 13), rng.randrange(1, 29))
    elif r < 0.85:
        o.end = '2020/%02d/%02d' % (rng.randrange(2, 13), rng.randrange(1, 29))
    elif r < 0.92:
        o.real = True
    return o


def gen_tree_opts(rng, j):
    o = Opt()
    r = rng.random()
    if r < 0.45:
        o.state = rng.choice(['cleared', 'uncleared', 'pending'])
    elif r < 0.6:
        o.real = True
    elif r < 0.8:
        a = rng.choice(j['accts'])
        o.query = [('acct', rng.choice(a))]
    elif r < 0.9:
        o.query = [('payee', rng.choice(PQUERIES))]
    if rng.random() < 0.2:
        o.real = True
    if rng.random() < 0.2:
        o.depth = rng.choice([1, 2, 3, 4])
    if rng.random() < 0.25:
        o.empty = True
    if rng.random() < 0.15:
        o.flat = True
    return o


def elide_into(posts, acct, state, deferred=True):
    """complete `posts` (plain amounts) the way finalize() does for ONE posting written without an
    amount: the balance per commodity in symbol order (balance_t::sorted_amounts); the first
    commodity fills the written posting, every further one is a generated posting with the same
    account, flags and state, appended to the transaction (add_balancing_post, xact.cc:125-155)"""
    res = {}
    for p in posts:
        if p.virt == 1:
            continue
        e = res.setdefault(p.comm[0], [F(0), 0, p.comm])
        e[0] += p.q
        e[1] = max(e[1], p.dec)
    first = None
    tail = []
    for sym in sorted(res):
        q, dec, comm = res[sym]
        np = Post(acct, 0, state, -q, dec, comm, deferred=deferred, gen=1 if first is None else 2)
        if first is None:
            first = np
        else:
            tail.append(np)
    return first, tail


def gen_deferred_journal(rng):
    """the class: postings written with their account in angle brackets (`<Account>`, POST_DEFERRED).
    finalize() keeps them out of account->posts until the file has been read
    (account_t::add_deferred_post, keyed by the transaction's id = UUID tag or sequence number;
    apply_deferred_posts).  Shapes: any number of deferred postings per transaction, spread over
    accounts or several to ONE account (same or different commodities, with costs / lots as the
    base journal has them), a deferred posting without amount that absorbs one or several
    commodities (finalize generates the further postings with the same account and flags), a
    deferred and an ordinary posting to the same account, transactions with and without a UUID
    (ids compare as strings: "10" < "9"), parents and children both deferred."""
    j = gen_journal(rng)
    comms = j['comms']
    accts = list(j['accts'])
    for x in j['xacts']:
        cand = [p for p in x['posts'] if p.virt == 0]
        if not cand or rng.random() < 0.3:
            continue
        first = rng.choice(cand)
        first.deferred = True
        for p in cand:
            if p is first or rng.random() < 0.5:
                continue
            p.deferred = True
            if rng.random() < 0.65:
                p.acct = first.acct           # two or more deferred postings of one transaction to one account
            elif rng.random() < 0.3 and len(first.acct) > 1:
                p.acct = first.acct[:-1]      # ... and to its parent
    # directed transactions
    for k in range(rng.choice([1, 2, 2, 3, 4])):
        date = '2020/%02d/%02d' % (rng.randrange(1, 13), rng.randrange(1, 29))
        xstate = rng.choice(['u', 'u', 'c', 'p'])
        shape = rng.choice(['same-acct', 'same-acct', 'elided-multi', 'elided-multi', 'elided-one', 'mixed'])
        cs = rng.sample(COMMS, rng.choice([2, 2, 3])) if shape != 'elided-one' else rng.sample(COMMS, 1)
        posts = []
        for c in cs:
            for _ in range(rng.choice([1, 1, 2])):
                q = F(rng.randrange(1, 90000), 10 ** c[2])
                posts.append(Post(rng.choice(accts), 0, rng.choice(['u', 'u', 'c', 'p']), q, c[2], c))
        target = rng.choice(accts)
        if shape in ('elided-multi', 'elided-one'):
            first, tail = elide_into(posts, target, rng.choice(['u', 'u', 'c', 'p']))
            if shape == 'elided-multi' and rng.random() < 0.4:
                # a written deferred posting to the same account as well (balanced by the elided one)
                c = rng.choice(cs)
                posts.append(Post(target, 0, 'u', F(rng.randrange(1, 5000), 10 ** c[2]), c[2], c, deferred=True))
                first, tail = elide_into(posts, target, first.state)
            posts.insert(rng.randrange(len(posts) + 1), first)
            posts += tail
        else:
            # one written deferred posting per commodity, all to `target` (the balance of each commodity)
            res = {}
            for p in posts:
                e = res.setdefault(p.comm[0], [F(0), p.comm])
                e[0] += p.q
            for sym, (q, c) in sorted(res.items()):
                a = target
                if shape == 'mixed' and rng.random() < 0.4:
                    a = rng.choice(accts)
                d = not (shape == 'mixed' and rng.random() < 0.3)
                if rng.random() < 0.3:
                    # split into two postings
                    h = F(rng.randrange(1, 999), 10 ** c[2])
                    posts.append(Post(a, 0, rng.choice(['u', 'c', 'p']), -h, c[2], c, deferred=d))
                    q -= h
                posts.insert(rng.randrange(len(posts) + 1), Post(a, 0, rng.choice(['u', 'u', 'c', 'p']), -q, c[2], c, deferred=d))
        j['xacts'].insert(rng.randrange(len(j['xacts']) + 1),
                          dict(date=date, state=xstate, payee='%s %d' % (rng.choice(PAYEES), 70 + k), posts=posts))
        comms = list({c: 1 for c in comms + cs})
    uu = 0
    for x in j['xacts']:
        if rng.random() < 0.3:
            x['uuid'] = rng.choice(['u%d', 'U-%d', '0%d', 'id %d']) % uu
            uu += 1
    j['comms'] = comms
    j['accts'] = sorted({p.acct for x in j['xacts'] for p in x['posts']})
    return j


def gen_deferred_opts(rng, j):
    r = rng.random()
    if r < 0.3:
        return Opt()
    if r < 0.55:
        o = Opt()
        k = rng.randrange(5)
        if k == 0:
            o.flat = True
        elif k == 1:
            o.real = True
        elif k == 2:
            o.state = rng.choice(['cleared', 'uncleared', 'pending'])
        elif k == 3:
            o.flat, o.depth = True, rng.choice([1, 2, 3])
        else:
            o.depth = rng.choice([1, 2, 3])
        return o
    return gen_opts(rng)


STATE_TXT = {'u': '', 'c': '* ', 'p': '! '}


def render(j):
    out = list(j.get('header', []))
    for x in j['xacts']:
        out += x.get('pre', [])
        out.append('%s %s%s' % (x.get('date_text', x['date']), STATE_TXT[x['state']], x['payee']))
        if x.get('uuid'):
            out.append('    ; UUID: ' + x['uuid'])
        for p in x['posts']:
            if p.inferred or p.gen == 2:
                continue
            name = p.rname or ':'.join(p.acct)
            if p.deferred:
                name = '<' + name + '>'
            if p.gen == 1:
                out.append('    %s%s' % (STATE_TXT[p.state], name))
                continue
            if p.virt == 1:
                name = '(' + name + ')'
            elif p.virt == 2:
                name = '[' + name + ']'
            t = amt_text(p.q, p.dec, p.comm[0], p.comm[1])
            if p.lot is not None:
                if p.lot.get('price'):
                    pq, pdec, pc = p.lot['price']
                    t += ' {%s}' % amt_text(pq, pdec, pc[0], pc[1])
                if p.lot.get('date'):
                    t += ' [%s]' % p.lot['date']
                if p.lot.get('tag'):
                    t += ' (%s)' % p.lot['tag']
            if p.cost is not None:
                kind, cq, cdec, cc = p.cost
                t += ' %s %s' % (kind, amt_text(cq, cdec, cc[0], cc[1]))
            out.append('    %s%s    %s' % (STATE_TXT[p.state], name, t))
        out.append('')
        out += x.get('post_lines', [])
    out += j.get('footer', [])
    return '\n'.join(out)


def pool_of(j):
    """display precision per commodity: the largest number of decimals among the posting amounts
    (costs and lot prices are parsed PARSE_NO_MIGRATE and teach nothing)"""
    pool = {}
    for x in j['xacts']:
        for p in x['posts']:
            if not p.inferred and not p.gen:      # an inferred / calculated amount is computed, not parsed: it teaches nothing
                pool[p.comm[0]] = max(pool.get(p.comm[0], 0), p.dec)
    return pool


def hx(s):
    return s.encode() if s else b''


def xact_ids(j):
    """item_t::id() of every transaction: its UUID tag, else its sequence number (textual.cc: one
    number per transaction and per written posting line, counted from 1; the directives these
    journals use take none)"""
    ids, seq = [], 1
    for x in j['xacts']:
        ids.append(x.get('uuid') or str(seq))
        seq += 1 + sum(1 for p in x['posts'] if not p.inferred and p.gen != 2)
    return ids


def posts_sx(j):
    out = []
    ids = xact_ids(j)
    for xi, x in enumerate(j['xacts']):
        for p in x['posts']:
            key = comm_key(p, x['date'])
            amt = [p.q.numerator, p.q.denominator, p.dec, 0, hx(key)]
            if p.cost is not None:
                tq, tprec = total_cost(p)
                cost = [tq.numerator, tq.denominator, tprec, 1, hx(p.cost[3][0])]
            else:
                cost = 'none'
            out.append([xi, hx(x['payee']), x['state'], p.state, [hx(s) for s in p.acct], 1 if p.virt else 0, amt, cost,
                        int(x['date'].replace('/', '')), 1 if p.inferred else 0,
                        1 if p.deferred else 0, hx(ids[xi])])
    return out


class Opt:
    def __init__(self, real=False, state='any', query=None, basis=False, lots='', flat=False, depth=None, empty=False,
                 begin=None, end=None):
        self.real, self.state, self.query, self.basis = real, state, query, basis
        self.lots, self.flat, self.depth, self.empty = lots, flat, depth, empty
        self.begin, self.end = begin, end      # -b / -e DATE ('YYYY/MM/DD')

    def with_rows(self, flat, depth, empty):
        return Opt(self.real, self.state, self.query, self.basis, self.lots, flat, depth, empty, self.begin, self.end)

    def keep(self):
        return dict(lots=(1, 1, 1), prices=(1, 0, 0), dates=(0, 1, 0), notes=(0, 0, 1)).get(self.lots, (0, 0, 0))

    def filter_args(self):
        a = []
        if self.real:
            a.append('--real')
        if self.state != 'any':
            a.append('--' + self.state)
        if self.basis:
            a.append('-B')
        if self.lots:
            a.append({'lots': '--lots', 'prices': '--lot-prices', 'dates': '--lot-dates', 'notes': '--lot-notes'}[self.lots])
        if self.begin:
            a += ['-b', self.begin]
        if self.end:
            a += ['-e', self.end]
        return a

    def query_args(self):
        return [(t[1] if t[0] == 'acct' else '@' + t[1]) for t in (self.query or [])]

    def bal_args(self):
        a = self.filter_args()
        if self.flat:
            a.append('--flat')
        if self.depth is not None:
            a += ['--depth', str(self.depth)]
        if self.empty:
            a.append('--empty')
        return a

    def sx(self):
        kp, kd, kt = self.keep()
        q = 'none' if not self.query else [[t[0], hx(t[1])] for t in self.query]
        return ['opts', self.real, self.state, q, self.basis, kp, kd, kt, self.flat,
                'none' if self.depth is None else self.depth, self.empty,
                int(self.begin.replace('/', '')) if self.begin else 'none',
                int(self.end.replace('/', '')) if self.end else 'none']

    def key(self):
        return ' '.join(self.bal_args() + self.query_args()) or '(none)'

    def filter_key(self):
        return ' '.join(self.filter_args() + self.query_args())


def gen_opts(rng):
    o = Opt()
    if rng.random() < 0.3:
        o.real = True
    if rng.random() < 0.4:
        o.state = rng.choice(['cleared', 'uncleared', 'pending'])
    if rng.random() < 0.35:
        o.query = [('acct', rng.choice(QUERIES)) if rng.random() < 0.7 else ('payee', rng.choice(PQUERIES))
                   for _ in range(rng.choice([1, 1, 1, 2, 3]))]
    if rng.random() < 0.4:
        o.basis = True
    if rng.random() < 0.5:
        o.lots = rng.choice(['lots', 'prices', 'dates', 'notes'])
    if rng.random() < 0.4:
        o.flat = True
    if rng.random() < 0.45:
        o.depth = rng.choice([1, 1, 2, 2, 3, 4, 6])
    if rng.random() < 0.3:
        o.empty = True
    if rng.random() < 0.12:
        o.begin = '2020/%02d/%02d' % (rng.randrange(1, 13), rng.randrange(1, 29))
    if rng.random() < 0.12:
        o.end = '2020/%02d/%02d' % (rng.randrange(2, 13), rng.randrange(1, 29))
    return o


# ---------------------------------------------------------------------------- reading outputs

ANN_RE = re.compile(r'^(?: \{([^}]*)\})?(?: \[([^\]]*)\])?(?: \(([^)]*)\))?$')


def canon_price(text):
    """`$2.5000` / `1.50 EUR` -> `$5/2` / `EUR3/2` (the key spelling of price_key)"""
    m = re.fullmatch(r'(-?)([^\d\s.-]+)\s*([\d.]+)', text) or None
    if m:
        sym, num = m.group(2), m.group(1) + m.group(3)
    else:
        m = re.fullmatch(r'(-?[\d.]+)\s*(\S+)', text)
        if not m:
            return '?' + text
        sym, num = m.group(2), m.group(1)
    q = F(num)
    return '%s%d/%d' % (sym, q.numerator, q.denominator)


def canon_amount(part):
    """one `A:<hexsym>[~<hexannot>]:n/d:prec:keep` of the hook -> the same with the model's key"""
    m = re.fullmatch(r'A:([0-9a-f]*)(?:~([0-9a-f]*))?:(-?\d+/\d+:\d+:[01])', part)
    if not m:
        return part
    sym = bytes.fromhex(m.group(1)).decode('utf-8', 'replace')
    key = sym
    if m.group(2) is not None:
        ann = bytes.fromhex(m.group(2)).decode('utf-8', 'replace')
        am = ANN_RE.match(ann)
        if am:
            key = '%s~%s~%s~%s' % (sym, canon_price(am.group(1)) if am.group(1) else '', am.group(2) or '', am.group(3) or '')
        else:
            key = sym + '~?' + ann
    return 'A:%s:%s' % (key.encode().hex(), m.group(3))


def canon_value(s):
    s = s.strip()
    if s.startswith('B:'):
        parts = [canon_amount(p) for p in s[2:].split(';')] if s[2:] else []
        return 'B:' + ';'.join(sorted(parts))
    if s.startswith('A:'):
        return canon_amount(s)
    return s


def denote(s):
    """canonical value text -> {commodity key: Fraction} without zero entries (None on junk)"""
    d = {}
    if s.startswith('I:'):
        z = int(s[2:])
        return {'': F(z)} if z else {}
    if s.startswith('V:'):
        return {}
    body = s[2:] if s.startswith('B:') else s
    for part in (body.split(';') if body else []):
        m = re.fullmatch(r'A:([0-9a-f]*):(-?\d+)/(\d+):\d+:[01]', part)
        if not m:
            return None
        k = bytes.fromhex(m.group(1)).decode('utf-8', 'replace')
        d[k] = d.get(k, 0) + F(int(m.group(2)), int(m.group(3)))
    return {k: q for k, q in d.items() if q != 0}


def dadd(a, b):
    r = dict(a)
    for k, q in b.items():
        r[k] = r.get(k, 0) + q
    return {k: q for k, q in r.items() if q != 0}


def by_base(d):
    r = {}
    for k, q in d.items():
        b = k.split('~')[0]
        r[b] = r.get(b, 0) + q
    return {k: q for k, q in r.items() if q != 0}


def keyfields(k):
    f = k.split('~')
    return f if len(f) == 4 else [f[0], '', '', '']


BAL_FMT = ('%(account)|%(verif_rational(total))|%(verif_rational(scrub(display_total)))|%(verif_rational(amount))'
           '|%(options.flat ? "" : depth_spacer)|%(partial_account(options.flat))\\n')
REG_FMT = ('%(account)|%(verif_rational(amount_expr))|%(verif_rational(total))|%(verif_rational(scrub(display_amount)))'
           '|%(verif_rational(scrub(display_total)))|%(payee)|%(actual)\\n')


def q_arg(a):
    return "'" + a + "'" if re.search(r"[^A-Za-z0-9_@./=-]", a) else a


def cmdline(words):
    return ' '.join(q_arg(w) for w in words)


def parse_rows(block, n):
    rows = []
    bad = None
    for l in block.split('\n'):
        if not l.strip():
            continue
        f = l.split('|')
        if len(f) != n or 'Error' in l:
            bad = l
            continue
        rows.append(f)
    return rows, bad


# ------------------------------------------------------------------------------------- oracle

def under(a, b):
    """account name b is a or a sub-account of a (by segments)"""
    return b == a or b.startswith(a + ':')


def oracle_filterset(j, fk, aux_bal, reg, viol, case):
    """identities that involve only the filter options (one `bal --empty` and one
    `reg --empty --no-rounding` with the same filters)"""
    def bad(key, desc, observed, required):
        viol.append(dict(key=key, desc=desc, case=case, observed=str(observed), required=str(required)))
    rows = [(r[0], denote(canon_value(r[1])), denote(canon_value(r[3]))) for r in aux_bal if r[0] != '']
    regd = [(r[0], denote(canon_value(r[1])), denote(canon_value(r[2]))) for r in reg]
    if any(t is None or o is None for _, t, o in rows) or any(a is None or t is None for _, a, t in regd):
        bad('unreadable-output', 'a value could not be read', '', '')
        return
    names = [a for a, _, _ in rows]
    # the running total on each row is the sum of the amounts of all rows so far
    acc = {}
    for i, (a, amt, tot) in enumerate(regd):
        acc = dadd(acc, amt)
        if tot != acc:
            bad('reg-running-total', 'running total of row %d is not the sum of the row amounts so far' % (i + 1), tot, acc)
            break
    for a, tot, own in rows:
        # the balance of an account = sum of the register postings to it and its sub-accounts
        want = {}
        wown = {}
        for ra, amt, _ in regd:
            if under(a, ra):
                want = dadd(want, amt)
            if ra == a:
                wown = dadd(wown, amt)
        if tot != want:
            bad('bal-vs-reg-subtree', 'balance of %s differs from the sum of the register postings under it' % a, tot, want)
        if own != wown:
            bad('bal-own-vs-reg', 'own amount of %s differs from the sum of the register postings to it' % a, own, wown)
        # a parent's total = its own postings + its children's totals (children = the rows whose
        # nearest displayed ancestor is this account: with --empty a hidden intermediate account
        # has no postings and exactly one child)
        kids = {}
        for b, tb, _ in rows:
            if b != a and under(a, b) and not any(c != a and c != b and under(a, c) and under(c, b) for c in names):
                kids = dadd(kids, tb)
        if tot != dadd(own, kids):
            bad('parent-total', 'total of %s is not its own amount plus its children\'s totals' % a, tot, dadd(own, kids))
    # the last running total equals the grand total
    tl = [r for r in aux_bal if r[0] == '']
    if tl:
        grand = denote(canon_value(tl[0][1]))
    else:
        grand = {}
        for a, t, _ in rows:
            if not any(b != a and under(b, a) for b in names):
                grand = dadd(grand, t)
    last = regd[-1][2] if regd else {}
    if grand != last:
        bad('grand-total-vs-last-running-total', 'the last running total differs from the balance grand total', last, grand)
    return grand


DEFERRED_RE = re.compile(r'^\s+(?:[*!]\s*)?<([^>]+)>(?:\s{2,}|\t|$)')


def oracle_deferred(text, fk, aux_bal, reg, viol, case):
    """the property on the accounts that receive deferred postings (`<Account>` lines of the
    journal text): the own amount and the balance the balance report gives such an account are,
    commodity by commodity, the sums of the register's postings to it (and below it), and the
    register has at least as many postings to it as the journal has deferred lines for it (when
    nothing filters).  Written from the property text and the journal text, not from the model."""
    def bad(key, desc, observed, required):
        viol.append(dict(key=key, desc=desc, case=case, observed=str(observed), required=str(required)))
    lines = {}
    for l in text.split('\n'):
        m = DEFERRED_RE.match(l)
        if m:
            lines[m.group(1)] = lines.get(m.group(1), 0) + 1
    if not lines:
        return 0
    regd = [(r[0], denote(canon_value(r[1]))) for r in reg]
    rows = {r[0]: (denote(canon_value(r[1])), denote(canon_value(r[3]))) for r in aux_bal if r[0] != ''}
    for a, n in sorted(lines.items()):
        own, sub = {}, {}
        cnt = 0
        for ra, amt in regd:
            if amt is None:
                continue
            if ra == a:
                own = dadd(own, amt)
                cnt += 1
            if under(a, ra):
                sub = dadd(sub, amt)
        if fk == '' and cnt < n:
            bad('deferred-posting-missing-from-register', 'the journal defers %d postings to %s, the register has %d postings to it' % (n, a, cnt), cnt, n)
        got = rows.get(a)
        if got is None:
            # `bal --empty` lists every account that has a selected posting
            if cnt:
                bad('deferred-account-missing-from-balance', 'the register has %d postings to %s, the balance report (--empty) has no line for it' % (cnt, a), 'no line', own)
            continue
        if got[1] != own:
            bad('deferred-account-own-amount-vs-register', 'own amount of %s (receives deferred postings) differs from the sum of the register postings to it' % a, got[1], own)
        if got[0] != sub:
            bad('deferred-account-balance-vs-register', 'balance of %s (receives deferred postings) differs from the sum of the register postings to it and its sub-accounts' % a, got[0], sub)
    return len(lines)


def oracle_optset(o, bal, reg, regd_rows, grand_f, viol, case):
    def bad(key, desc, observed, required):
        viol.append(dict(key=key, desc=desc, case=case, observed=str(observed), required=str(required)))
    regd = [(r[0], denote(canon_value(r[1]))) for r in reg]
    kp, kd, kt = o.keep()
    for r in bal:
        a, tot, disp = r[0], denote(canon_value(r[1])), denote(canon_value(r[2]))
        if tot is None or disp is None:
            bad('unreadable-output', 'a value could not be read', r, '')
            continue
        if a == '':
            if grand_f is not None and tot != grand_f:
                bad('grand-total-changed-by-row-options', 'the grand total depends on --flat/--depth/--empty', tot, grand_f)
        else:
            want = {}
            for ra, amt in regd:
                if under(a, ra):
                    want = dadd(want, amt)
            if tot != want:
                bad('bal-vs-reg-subtree:' + ('flat' if o.flat else 'tree') + (':depth' if o.depth is not None else ''),
                    'balance of %s differs from the sum of the register postings under it' % a, tot, want)
            if o.depth is not None and a.count(':') + 1 > o.depth:
                bad('depth-row-too-deep', 'account %s shown with --depth %d' % (a, o.depth), a, '')
        # showing lots refines a total but never changes its per-commodity sum
        if by_base(tot) != by_base(disp):
            bad('lots-change-commodity-sum', 'the displayed total of %s does not have the per-commodity sums of the exact total' % (a or 'the total line'),
                by_base(disp), by_base(tot))
        for k in disp:
            f = keyfields(k)
            if (f[1] and not kp) or (f[2] and not kd) or (f[3] and not kt):
                bad('lot-detail-not-stripped', 'a lot detail that was not asked for is displayed', k, '')
        # the refinement: grouping the exact total by the kept fields gives the displayed one
        grp = {}
        for k, q in tot.items():
            f = keyfields(k)
            g = [f[0], f[1] if kp else '', f[2] if kd else '', f[3] if kt else '']
            kk = f[0] if not (g[1] or g[2] or g[3]) else '~'.join(g)
            grp[kk] = grp.get(kk, 0) + q
        grp = {k: q for k, q in grp.items() if q != 0}
        if grp != disp:
            bad('lots-not-a-refinement', 'the displayed total of %s is not the exact total grouped by the kept lot details' % (a or 'the total line'), disp, grp)
    if regd_rows is not None:
        # register with --depth: rows are per-transaction sub-totals; same identities
        acc = {}
        rows = [(r[0], denote(canon_value(r[1])), denote(canon_value(r[2]))) for r in regd_rows]
        for i, (a, amt, tot) in enumerate(rows):
            acc = dadd(acc, amt)
            if tot != acc:
                bad('reg-depth-running-total', 'running total of row %d of reg --depth is not the sum of the rows so far' % (i + 1), tot, acc)
                break
            if a.count(':') + 1 > o.depth:
                bad('reg-depth-row-too-deep', 'reg --depth %d shows %s' % (o.depth, a), a, '')
        for r in bal:
            if r[0] == '':
                continue
            want = {}
            for a, amt, _ in rows:
                if under(r[0], a):
                    want = dadd(want, amt)
            if denote(canon_value(r[1])) != want:
                bad('bal-vs-reg-depth', 'balance of %s differs from the sum of the collapsed register rows under it' % r[0],
                    denote(canon_value(r[1])), want)
        if grand_f is not None and (rows[-1][2] if rows else {}) != grand_f:
            bad('reg-depth-last-total', 'last running total of reg --depth differs from the grand total', rows[-1][2] if rows else {}, grand_f)


def read_tree(rows):
    """the lines of a balance report read back as a tree: two blanks of indentation per level,
    a line at level l > 0 hangs under the nearest line above it at level l-1 and its full name
    is that line's name + ':' + its own (partial) name.  -> [(full name, parent index or None, level)], problems"""
    out, stack, probs = [], [], []
    for i, r in enumerate(rows):
        sp, pn = r[4], r[5]
        if sp.strip(' ') or len(sp) % 2:
            probs.append(('tree-bad-indentation', 'line %r is indented by %r' % (pn, sp)))
        lvl = len(sp) // 2
        if lvl > len(stack):
            probs.append(('tree-line-without-parent', 'line %r is at level %d but the line above is at level %d' % (pn, lvl, len(stack) - 1)))
            lvl = len(stack)
        par = stack[lvl - 1] if lvl > 0 else None
        full = pn if par is None else out[par][0] + ':' + pn
        out.append((full, par, lvl))
        stack = stack[:lvl] + [i]
    return out, probs


def accounts_of(names):
    ex = set()
    for n in names:
        segs = n.split(':')
        for k in range(1, len(segs) + 1):
            ex.add(':'.join(segs[:k]))
    return ex


def oracle_tree(o, bal, reg, aux_bal, exist, grand_f, viol, case):
    """the balance report as displayed (indentation + partial names), read back as a tree, against
    the register of the same filters"""
    def bad(key, desc, observed, required):
        viol.append(dict(key=key, desc=desc, case=case, observed=str(observed), required=str(required)))
    rows = [r for r in bal if not (r[0] == '' and r[5] == '')]
    tree, probs = read_tree(rows)
    for k, d in probs:
        bad(k, d, '', 'two blanks per displayed ancestor')
    regd = [(r[0], denote(canon_value(r[1]))) for r in reg]
    names = [t[0] for t in tree]
    auxown = [(r[0], denote(canon_value(r[3]))) for r in aux_bal if r[0] != '']

    def unaccounted(a):
        """an account below a (a = None: anywhere) with own postings that no displayed line below a covers"""
        for b, own in auxown:
            if not own:
                continue
            if a is not None and (b == a or not under(a, b)):
                continue
            if any(under(c, b) and (a is None or (c != a and under(a, c))) for c in names):
                continue
            return b
        return None

    top = {}
    for i, (full, par, lvl) in enumerate(tree):
        r = rows[i]
        tot = denote(canon_value(r[1]))
        if tot is None:
            continue
        if full != r[0]:
            bad('tree-name-vs-account', 'the line of account %s reads as %s in the tree (indentation %d, name %s)' % (r[0], full, lvl, r[5]), full, r[0])
        if full not in exist:
            bad('tree-line-unknown-account', 'the tree shows an account %s that does not exist' % full, full, 'an account of the journal')
        want, own = {}, {}
        for ra, amt in regd:
            if under(full, ra):
                want = dadd(want, amt)
            if ra == full:
                own = dadd(own, amt)
        if tot != want:
            bad('tree-line-vs-reg', 'the tree shows %s for %s, the register postings to it and below sum to %s' % (tot, full, want), tot, want)
        kids = {}
        for j2, (f2, p2, _) in enumerate(tree):
            if p2 == i:
                kids = dadd(kids, denote(canon_value(rows[j2][1])) or {})
        if not o.flat and tot != dadd(own, kids):
            if unaccounted(full) is None:
                bad('tree-parent-total', '%s shows %s but own postings %s + displayed children %s' % (full, tot, own, kids), tot, dadd(own, kids))
        if lvl == 0:
            top = dadd(top, tot)
    tl = [r for r in bal if r[0] == '' and r[5] == '']
    grand = denote(canon_value(tl[0][1])) if tl else grand_f
    if not o.flat and grand is not None and top != grand and unaccounted(None) is None:
        bad('tree-top-level-sum', 'the top-level lines sum to %s, the grand total is %s' % (top, grand), top, grand)


# ---------------------------------------------------------------------------------------- run

def one_journal(ctx, res, j, opts, tag):
    text = render(j)
    path = ctx.path('j%s.dat' % (tag if isinstance(tag, str) else tag % 8))
    open(path, 'w').write(text + '\n')
    pool = pool_of(j)
    psx = posts_sx(j)
    poolsx = ['pool'] + [[hx(s), p] for s, p in sorted(pool.items())]
    exist = accounts_of(':'.join(p.acct) for x in j['xacts'] for p in x['posts'])
    # --- implementation: one REPL session per journal
    cmds = []
    plan = []
    fsets = {}
    for oi, o in enumerate(opts):
        fk = o.filter_key()
        if fk not in fsets:
            fsets[fk] = len(cmds)
            cmds.append(cmdline(['bal', '--empty', '--now', NOW] + o.filter_args() + ['--format', BAL_FMT] + o.query_args()))
            cmds.append(cmdline(['reg', '--empty', '--no-rounding', '--now', NOW] + o.filter_args() + ['--format', REG_FMT] + o.query_args()))
            cmds.append(cmdline(['reg', '--no-rounding', '--now', NOW] + o.filter_args() + ['--format', REG_FMT] + o.query_args()))
            if o.basis:
                cmds.append(cmdline(['reg', '--now', NOW] + o.filter_args() + ['--format', REG_FMT] + o.query_args()))
                cmds.append(cmdline(['bal', '--now', NOW] + o.filter_args() + ['--format', BAL_FMT] + o.query_args()))
        ent = dict(o=o, f=fsets[fk], bal=len(cmds))
        cmds.append(cmdline(['bal', '--now', NOW] + o.bal_args() + ['--format', BAL_FMT] + o.query_args()))
        if o.depth is not None:
            ent['regd'] = len(cmds)
            cmds.append(cmdline(['reg', '--empty', '--no-rounding', '--now', NOW] + o.filter_args() + ['--depth', str(o.depth), '--format', REG_FMT] + o.query_args()))
        plan.append(ent)
    blocks = lib.run_repl(path, cmds)
    # --- model
    lines = []
    for oi, o in enumerate(opts):
        want = ['want', 'reg', 'bal', 'own', 'lay'] + (['col'] if o.depth is not None else [])
        lines.append(lib.sx(['case', 'c%d' % oi, poolsx, want, o.sx(), ['posts'] + psx]))
        oe = o.with_rows(False, None, True)
        lines.append(lib.sx(['case', 'e%d' % oi, poolsx, ['want', 'bal', 'own'], oe.sx(), ['posts'] + psx]))
    mout = {}
    for l in lib.run_model('C05', lines):
        cid, _, rest = l.partition(' ')
        mout.setdefault(cid, []).append(model_line(rest))
    done_f = {}
    for oi, ent in enumerate(plan):
        o = ent['o']
        case = dict(journal=text, args=o.key(), pool=pool)
        res.evaluations += 1
        f = ent['f']
        aux_bal, bad1 = parse_rows(blocks[f], 6)
        reg, bad2 = parse_rows(blocks[f + 1], 7)
        reg_ne, bad3 = parse_rows(blocks[f + 2], 7)
        bal, bad4 = parse_rows(blocks[ent['bal']], 6)
        regd, bad5 = parse_rows(blocks[ent['regd']], 7) if 'regd' in ent else (None, None)
        errs = [b for b in (bad1, bad2, bad3, bad4, bad5) if b]
        if errs or any(b.startswith('CRASH') for b in (blocks[f], blocks[f + 1], blocks[ent['bal']])):
            res.violations.append(dict(key='report-failed', desc='a report on an accepted journal failed: %s' % (errs[:1] or blocks[f][:200]),
                                       case=case, observed=str(errs[:2]), required='rows'))
            continue
        # ---------------- oracle
        viol = []
        if f not in done_f:
            g = oracle_filterset(j, o.filter_key(), aux_bal, reg, viol, dict(case, args='--empty ' + o.filter_key()))
            if oracle_deferred(text, o.filter_key(), aux_bal, reg, viol, dict(case, args='--empty ' + o.filter_key())):
                res.count('oracle:deferred-accounts-checked')
            if o.basis:
                # with rounding on (<Adjustment>/<Revalued> rows present) the last displayed running
                # total still equals the displayed grand total
                rr, _ = parse_rows(blocks[f + 3], 7)
                bb, _ = parse_rows(blocks[f + 4], 6)
                lastd = denote(canon_value(rr[-1][4])) if rr else {}
                tl = [r for r in bb if r[0] == '']
                if tl:
                    gd = denote(canon_value(tl[0][2]))
                elif len([r for r in bb]) == 1:
                    gd = denote(canon_value(bb[0][2]))
                else:
                    gd = None
                if gd is not None and rr and by_base(lastd) != by_base(gd):
                    # rows hidden as display-zero do not reach the last row; compare only when the
                    # last selected posting is displayed
                    if reg and rr[-1][5] == reg[-1][5] and rr[-1][0] == reg[-1][0]:
                        viol.append(dict(key='rounded-reg-last-total', desc='with rounding on, the last displayed running total differs from the displayed grand total',
                                         case=dict(case, args='-B ' + o.filter_key()), observed=str(lastd), required=str(gd)))
                res.count('oracle:rounding-on-checked')
            done_f[f] = g
        oracle_optset(o, bal, reg, regd, done_f[f], viol, case)
        oracle_tree(o, bal, reg, aux_bal, exist, done_f[f], viol, case)
        res.violations.extend(viol)
        # ---------------- correspondence
        res.traces += 1
        m = mout.get('c%d' % oi, [])
        me = mout.get('e%d' % oi, [])
        if any(x.startswith('!driver-error') for x in m + me) or not m or m[-1] != 'end':
            res.disagreements.append(dict(name='C05/model-run', case=case, impl='', model=str((m + me)[:3])))
            continue
        if m and m[0] == 'ORDER-DEPENDENT':
            res.count('model:order-dependent')
            continue
        ireg = ['reg %s|%s|%s|%s|%s' % (r[0], canon_value(r[1]), canon_value(r[2]), canon_value(r[3]), canon_value(r[4])) for r in reg]
        mreg_all = [x for x in m if x.startswith('reg ')]
        mreg = [x.rsplit('|', 1)[0] for x in mreg_all]
        if ireg != mreg:
            k = next((i for i, (a, b) in enumerate(zip(ireg, mreg)) if a != b), min(len(ireg), len(mreg)))
            res.disagreements.append(dict(name='C05/reg-rows', case=case, impl=ireg[k:k + 2], model=mreg[k:k + 2]))
        # rows printed without --empty
        ishown = ['%s|%s' % (r[0], canon_value(r[1])) for r in reg_ne]
        mshown = ['|'.join(x[4:].split('|')[:2]) for x in mreg_all if x.endswith('|1')] if not o.empty else None
        mo = o.with_rows(False, None, False)
        if not o.empty and ishown != mshown:
            res.disagreements.append(dict(name='C05/reg-rows-shown', case=case, impl=ishown[:6], model=mshown[:6]))
        ibal = ['bal %s|%s|%s' % (r[0], canon_value(r[1]), canon_value(r[2])) for r in bal if r[0] != '']
        mbal = [x for x in m if x.startswith('bal ')]
        if ibal != mbal:
            res.disagreements.append(dict(name='C05/bal-rows', case=case, impl=ibal[:8], model=mbal[:8]))
        ilay = ['lay %s|%d|%s' % (r[0], len(r[4]) // 2, r[5]) for r in bal if r[0] != '']
        mlay = [x for x in m if x.startswith('lay ')]
        if ilay != mlay:
            k = next((i for i, (a, b) in enumerate(zip(ilay, mlay)) if a != b), min(len(ilay), len(mlay)))
            res.disagreements.append(dict(name='C05/bal-layout', case=case, impl=ilay[max(0, k - 2):k + 2], model=mlay[max(0, k - 2):k + 2]))
        if not o.flat and 'layok 1' not in m:
            res.disagreements.append(dict(name='C05/layout-hypothesis', case=case, impl='',
                                          model='a displayed level is not a printed line (hypothesis of layout_reads_back)'))
        itl = ['grand %s|%s' % (canon_value(r[1]), canon_value(r[2])) for r in bal if r[0] == '']
        mtl = [x for x in m if x.startswith('grand ')] if len(mbal) > 1 else []
        if itl != mtl:
            res.disagreements.append(dict(name='C05/total-line', case=case, impl=itl, model=mtl))
        # the --empty balance of the same filters, with own amounts
        iaux = ['bal %s|%s|%s' % (r[0], canon_value(r[1]), canon_value(r[2])) for r in aux_bal if r[0] != '']
        maux = [x for x in me if x.startswith('bal ')]
        if iaux != maux:
            res.disagreements.append(dict(name='C05/bal-empty-rows', case=case, impl=iaux[:8], model=maux[:8]))
        mown = dict(x[4:].split('|') for x in me if x.startswith('own '))
        for r in aux_bal + bal:
            if r[0] != '' and mown.get(r[0]) != canon_value(r[3]):
                res.disagreements.append(dict(name='C05/own-amount', case=case, impl=[r[0], canon_value(r[3])], model=mown.get(r[0])))
                break
        if regd is not None:
            # collapsed rows, per transaction, in order (the totals map is ordered by account name)
            groups = []
            for r in regd:
                if not groups or groups[-1][0] != r[5]:
                    groups.append((r[5], []))
                groups[-1][1].append('%s|%s' % (r[0], canon_value(r[1])))
            icol = [g for _, g in groups]
            mcol = {}
            for x in m:
                if x.startswith('col '):
                    _, k, rest = x.split(' ', 2)
                    mcol.setdefault(int(k), []).append(rest)
            mcol = [mcol[k] for k in sorted(mcol)]
            if icol != mcol:
                res.disagreements.append(dict(name='C05/reg-depth-rows', case=case, impl=icol[:4], model=mcol[:4]))
        # ---------------- bookkeeping
        nsel = len(reg)
        res.count('postings-selected:%s' % ('0' if nsel == 0 else '1-3' if nsel <= 3 else '4-10' if nsel <= 10 else '11+'))
        res.count('bal-rows:%s' % ('0' if not ibal else '1' if len(ibal) == 1 else '2-5' if len(ibal) <= 5 else '6+'))
        for name, on in (('real', o.real), ('state', o.state != 'any'), ('query', bool(o.query)), ('basis', o.basis),
                         ('lots', bool(o.lots)), ('flat', o.flat), ('depth', o.depth is not None), ('empty', o.empty), ('begin', bool(o.begin)), ('end', bool(o.end))):
            if on:
                res.count('opt:' + name)
        if not o.flat:
            posted = {':'.join(p.acct) for x in j['xacts'] for p in x['posts']}
            hit = {r[0] for r in reg}
            shown_names = [r[0] for r in bal if r[0] != '']
            if any(a in posted and a not in hit and any(b != a and under(a, b) for b in shown_names) for a in shown_names):
                res.count('display:shown-parent-with-all-own-postings-filtered')
        multi = any(canon_value(r[1]).startswith('B:') for r in bal)
        nested = any(under(a[0], b[0]) and a[0] != b[0] for a in aux_bal for b in aux_bal if a[0] and b[0])
        if multi:
            res.count('multi-commodity-total')
        if any('~' in bytes.fromhex(h).decode('utf-8', 'replace') for r in reg for h in re.findall(r'A:([0-9a-f]+):', canon_value(r[1]))):
            res.count('lot-annotated-rows')
        if not o.empty and len(reg_ne) < len(reg):
            # rows `reg` does not print without --empty (display_filter_posts: the display amount
            # prints as zero): count those whose exact amount is NOT zero - they are in every total
            k = 0
            for r in reg:
                if k < len(reg_ne) and (reg_ne[k][0], reg_ne[k][1]) == (r[0], r[1]):
                    k += 1
                elif denote(canon_value(r[1])):
                    res.count('display:nonzero-posting-hidden-as-display-zero')
        if nsel >= 2 and (multi or nested):
            res.nontrivial.add(o.key() + '\n' + text)
        if len(res.samples) < 4 and nsel >= 3 and nested:
            res.samples.append(dict(args=o.key(), journal=text, bal=ibal[:6], grand=itl, reg=ireg[:4]))


def run(ctx, n_override=None):
    rng = ctx.rng
    res = lib.Result()
    res.rule = ('generated accepted journals (1-12 transactions, account trees of depth 1-6, 1-5 commodities, lot annotations, '
                '@/@@ costs, virtual and balanced-virtual postings, deferred `<Account>` postings incl. amount-less ones, state flags) x option sets over --real, --cleared/--uncleared/'
                '--pending, -B, --lots/--lot-prices/--lot-dates/--lot-notes, --flat, --depth n, --empty, an account or @payee term; '
                'non-trivial = at least two selected postings and a multi-commodity total or nested displayed accounts; '
                'distinct by (option set, journal text)')
    nj = n_override or ctx.scale(400, 2500)
    per = 4
    for ji in range(nj):
        kind = rng.random()
        directed = kind < 0.15
        treej = 0.15 <= kind < 0.35
        bucketj = 0.35 <= kind < 0.55
        deferj = 0.55 <= kind < 0.73
        j = (gen_directed(rng) if directed else gen_tree_journal(rng) if treej else
             gen_bucket_journal(rng) if bucketj else gen_deferred_journal(rng) if deferj else gen_journal(rng))
        res.count('journal:directed' if directed else 'journal:display-tree' if treej else
                  'journal:directives+bucket' if bucketj else 'journal:deferred-postings' if deferj else 'journal:random')
        res.count('tree-depth:%d' % max(len(a) for a in j['accts']))
        res.count('commodities:%d' % len(j['comms']))
        opts = [gen_opts(rng) for _ in range(per)]
        if treej:
            opts = [gen_tree_opts(rng, j) for _ in range(per)]
        if bucketj:
            opts = [gen_bucket_opts(rng, j) for _ in range(per)]
            res.count('inferred-postings', sum(1 for x in j['xacts'] for p in x['posts'] if p.inferred))
        if deferj:
            opts = [gen_deferred_opts(rng, j) for _ in range(per)]
            res.count('deferred-postings', sum(1 for x in j['xacts'] for p in x['posts'] if p.deferred))
            res.count('deferred:transactions-with-2+-deferred-postings-to-one-account',
                      sum(1 for x in j['xacts'] if any(n > 1 for n in
                          __import__('collections').Counter(p.acct for p in x['posts'] if p.deferred).values())))
            res.count('deferred:generated-balancing-postings', sum(1 for x in j['xacts'] for p in x['posts'] if p.gen == 2))
        if rng.random() < 0.3:
            opts[0] = Opt()
        one_journal(ctx, res, j, opts, ji)
        if len(res.disagreements) > 30 or len(res.violations) > 30:
            break
    return res


def search(ctx, broken):
    import random
    for s in range(3):
        ctx.rng = random.Random('C05-search-%d-%d' % (ctx.seed, s))
        r = run(ctx, n_override=600)
        if r.violations:
            return r.violations
    return []


def opt_of_key(args):
    """the Opt a stored `args` string stands for"""
    o = Opt()
    words = [w for w in args.split() if w != '(none)']
    q = []
    i = 0
    while i < len(words):
        w = words[i]
        if w == '--real':
            o.real = True
        elif w in ('--cleared', '--uncleared', '--pending'):
            o.state = w[2:]
        elif w == '-B':
            o.basis = True
        elif w in ('--lots', '--lot-prices', '--lot-dates', '--lot-notes'):
            o.lots = {'--lots': 'lots', '--lot-prices': 'prices', '--lot-dates': 'dates', '--lot-notes': 'notes'}[w]
        elif w == '--flat':
            o.flat = True
        elif w == '--empty':
            o.empty = True
        elif w == '--depth':
            i += 1
            o.depth = int(words[i])
        elif w in ('-b', '-e'):
            i += 1
            if w == '-b':
                o.begin = words[i]
            else:
                o.end = words[i]
        else:
            q.append(('payee', w[1:]) if w.startswith('@') else ('acct', w))
        i += 1
    o.query = q or None
    return o


def replay(ctx, obj):
    """re-run the oracle on the stored journal with the stored arguments"""
    res = lib.Result()
    case = obj.get('case') or {}
    if 'journal' not in case:
        return res
    path = ctx.path('replay.dat')
    open(path, 'w').write(case['journal'] + '\n')
    o = opt_of_key(case.get('args', ''))
    cmds = [cmdline(['bal', '--empty', '--now', NOW] + o.filter_args() + ['--format', BAL_FMT] + o.query_args()),
            cmdline(['reg', '--empty', '--no-rounding', '--now', NOW] + o.filter_args() + ['--format', REG_FMT] + o.query_args()),
            cmdline(['bal', '--now', NOW] + o.bal_args() + ['--format', BAL_FMT] + o.query_args()),
            'accounts']
    if o.depth is not None:
        cmds.append(cmdline(['reg', '--empty', '--no-rounding', '--now', NOW] + o.filter_args() +
                            ['--depth', str(o.depth), '--format', REG_FMT] + o.query_args()))
    blocks = lib.run_repl(path, cmds)
    aux_bal, _ = parse_rows(blocks[0], 6)
    reg, _ = parse_rows(blocks[1], 7)
    bal, _ = parse_rows(blocks[2], 6)
    exist = accounts_of(l.strip() for l in blocks[3].split('\n') if l.strip())
    viol = []
    g = oracle_filterset(None, '', aux_bal, reg, viol, case)
    oracle_deferred(case['journal'], o.filter_key(), aux_bal, reg, viol, case)
    regd = parse_rows(blocks[4], 7)[0] if o.depth is not None else None
    oracle_optset(o, bal, reg, regd, g, viol, case)
    oracle_tree(o, bal, reg, aux_bal, exist, g, viol, case)
    for v in viol:
        print('replay: %s: %s (observed %s, required %s)' % (v['key'], v['desc'], v['observed'], v['required']))
    res.violations.extend(v for v in viol if v['key'].split(':')[0] == obj.get('key', '').split(':')[0])
    return res
