"""C06 - print and equity output re-reads to an equivalent journal.
Correspondence (impl vs model): whole generated journals; (a) finalize of the journal as written (rows of `reg`),
(b) print's per-posting decisions recovered from ledger's `print` text by a small tokenizer (state mark, amount
present or elided, its number/decimals/commodity, bare 0, lot price, `@`/`@@`/`(@)`/`(@@)` and the printed cost,
`= assigned`) against Model/Print.v `decide` on the finalized postings, (c) finalize of the re-read printed journal
(rows of `reg` on the printed text) against the model's reread+finalize, (d) whether printing the re-read journal
again gives the same decisions, (e) the postings `equity` emits per account against `equity_account`, (f) the number of blanks between the account
name and the amount in the raw bytes of every printed posting line against `posting_blanks`.
Oracle (property text, implementation only, Fractions through verif_rational): every printed posting line keeps the account name
at least two blanks (or a tab) away from the amount; rows of J (date, aux date, state, code,
payee, account, virtual, note, tags, exact amount, exact cost) equal the rows of `print J` re-read; the cost text of every printed
posting denotes the cost as written (kind, (virtual) marking, exact number, commodity), and the price history (`prices`) is the same after the round trip; print(print J) is
byte-identical to print J; `bal` of the re-read `equity J` equals `bal J` per account and commodity.
Side streams (run_side, oracle only): the same relations, plus `bal --lots` of J = `bal --lots` of print J, on small journals of input
classes Model/Print.v does not cover (fixated cost, apply tag, written lot after a computed one, time-commodity cost, decimal comma,
format directive, equity of an account posted to as [A] and (A)); keys `<class>:<relation>`."""
import re
from fractions import Fraction as F
import lib
import xactlib as X

META = dict(
    id='C06',
    level='proof',
    technique='Coq proof about a model of print_xact\'s per-posting decisions, of the reader on such lines and of posts_as_equity (print shows what was written; re-read of an exactly balanced transaction is accepted with the same exact amounts and costs; the two-posting elision happens only when both postings must balance and is then sound; print never fails; posting marks bring the state back; per-unit and total costs re-read to the same total; printing twice is stable; equity reproduces per-account per-commodity sums) + differential correspondence against ledger + implementation-only round-trip oracle',
    level_text='Theorems in coq/Properties/Properties_C06.v are stated for Model/Print.v: `decide` (post_has_simple_amount, the count == 2 && index == 2 elision, POST_CALCULATED / ITEM_GENERATED suppression, the @ / @@ choice with the printed per-unit cost |given_cost / amount|, state marks, bare 0 for a display-zero amount, read_back = amount_t::print then amount_t::parse at display precision with zero trimming), `reread` (what parse_post makes of such a line) followed by Model/Xact.v `finalize`, and `equity_account`. The model is tied to the code by tokenizing ledger\'s print output into the same decision records and by comparing finalize of the original and of the re-read printed text (exact rationals via the verif_rational hook).',
    level_note='Trusted: Coq kernel; the MPFR display rounding model Base/Round.v (validated by C04); extraction/driver/harness for the correspondence. Of the layout only the rule that separates account and amount is modelled (account column = max(36, longest printed name), amount right-justified in 12, gap topped up to two blanks; account_width / sep_blanks / posting_blanks, theorem print_separates_account_and_amount) and compared with the raw bytes of every printed posting line; note placement and blank lines are covered by the byte-identity oracle print(print J) == print J only. Amount text <-> amount value is C04\'s subject (AmountText.v); here an amount is printed as the value the reader gets back (read_back). Not modelled: amount expressions `(expr)`, --generated, automated/periodic transactions in print, metadata set programmatically (print.cc:172-183), value-expression annotations, commodity styles beyond prefix/suffix, the iteration order of accounts in equity. Side streams (oracle only, not modelled; run_side): a fixated cost `@ =P` / `@@ =T`, `apply tag`, a lot first created by a plain `@` purchase and later written out in a sale, a per-unit cost on a time amount (h/m), a decimal-comma commodity whose precision grows, a commodity/format directive with a finer written amount, equity for an account posted to as [A] and (A) - findings F192-F198. Known findings still listed: F8 (zero amount printed as bare 0), F29 (re-read rejected after the commodity precision grew), F30 (equity rounds an inferred amount to display precision), F31 (all-zero transaction not printed), F135 (the roundings of two printed balance assignments on one account add up and the second printed assertion is rejected). Repaired in /repo and now enforced as violations by the oracle: virtual-pair elision (bcb53b0, old F7), posting mark under a marked transaction (294def6, old F27), zero amount with a per-unit cost (c386080, old F28).',
    design_ref='DESIGN.md section 7 C06',
    assumptions=['the posting finalize infers for a single posting under a bucket directive is part of every comparison (rows with states, print decisions, layout)',
                 'journals accepted by ledger (a journal with any error is outside the quantifier; erroneous transactions are dropped by the generator)',
                 'main stream (the one compared with the model): commodities $ EUR AAA BBB CCC without thousands marks or decimal comma (C04 covers styles), no directives other than bucket / apply account, plain @ / @@ costs; the side streams cover a decimal comma, a format directive, apply tag, fixated costs and time amounts by the oracle alone',
                 'payees start with x<N>; account, payee, code and note text avoid `|`, `[`, a leading `(`/`[` and two consecutive blanks before `;`',
                 'balance assignments only on dedicated accounts whose running total the generator tracks; the amount ledger computes for one is handed to the model (it teaches the pool nothing), the re-read printed journal is decided by the assertion journal loop of Model/Assert.v',
                 'equity: amounts written at or below the commodity precision (hypothesis of equity_reproduces_balances)'],
)

NOW = ['--now', '2021/06/15']
FMT = ('%(payee)|%(account)|%(virtual)|%(date)|%(aux_date)|%(cleared)|%(pending)|%(code)|%(join(note))|'
       '%(verif_rational(amount))|%(verif_rational(cost))|%(calculated)|%(actual)|'
       '%(has_tag("tag1"))%(has_tag("tag2"))|%(tag("key"))\\n')

UNUSUAL_ACCTS = ['Assets:My Bank', 'Expenses:Café & Bar', "Liabilities:O'Neil", 'Assets:Acct-2.x', 'Income:Job;x',
                 'Expenses:100% Juice', 'Assets:a b c:d', 'Expenses:Über:東京']
PAYEE_SUFFIX = ['', '', '', ' Zoë & Co', " O'Brien; ltd", ' pay  ee', ' (not code)', ' =5', ' * star', ' ! bang', ' 100%', ' @ home',
                ' 東京']
CODES = [None, None, None, '123', 'c 9', 'A-1', '#77', '*']
XNOTES = [None, None, None, 'note here', ':tag1:', ':tag1:tag2:', 'key: value', 'free text ; with semicolon', 'key: v2 :tag1:']
PNOTES = [None, None, None, None, 'pnote', ':tag2:', 'key: pv', 'a = b @ c']
LOT_DATES = [None, None, None, '2019/01/01', '2018/12/31']
LOT_TAGS = [None, None, None, 'lot note', 'L1']


class XPost(X.Post):
    def __init__(self, acct, kind='R', amt=None, cost=None, lot=None, mark='', cvirt=False, assigned=None, note=None,
                 lotdate=None, lottag=None, computed=None):
        X.Post.__init__(self, acct, kind, amt, cost, lot)
        self.mark, self.cvirt, self.assigned, self.note = mark, cvirt, assigned, note
        self.lotdate, self.lottag = lotdate, lottag
        self.computed = computed          # for a balance assignment: the amount ledger computes (Amt)

    def key(self):
        if self.amt is None:
            return None
        k = self.amt.sym
        if self.lot is None and self.lotdate is None and self.lottag is None:
            return k
        k += '~'
        if self.lot is not None:
            k += '{%s/%s %s}' % (self.lot.value.numerator, self.lot.value.denominator, self.lot.sym)
        if self.lotdate:
            k += '[%s]' % self.lotdate
        if self.lottag:
            k += '(%s)' % self.lottag
        return k

    def text(self):
        a = {'R': '%s', 'V': '(%s)', 'B': '[%s]'}[self.kind] % self.acct
        s = '    ' + (self.mark + ' ' if self.mark else '') + a
        rest = ''
        if self.amt is not None:
            rest = self.amt.text()
            if self.lot is not None:
                rest += ' {%s}' % self.lot.text()
            if self.lotdate:
                rest += ' [%s]' % self.lotdate
            if self.lottag:
                rest += ' (%s)' % self.lottag
            if self.cost is not None:
                op = '@' if self.cost[0] == 'u' else '@@'
                if self.cvirt:
                    op = '(%s)' % op
                rest += ' %s %s' % (op, self.cost[1].text())
        if self.assigned is not None:
            rest += (' ' if rest else '') + '= ' + self.assigned.text()
        if rest:
            s += '    ' + rest
        if self.note is not None:
            s += '  ; ' + self.note
        return s

    root = None                           # `apply account ROOT` around the journal: ledger sees ROOT:acct

    def full(self):
        return (self.root + ':' if self.root else '') + self.acct

    def model_amt(self):
        return self.computed if (self.amt is None and self.computed is not None) else self.amt

    def sx(self):
        ma = self.model_amt()
        return ['post', self.full().encode(), self.kind,
                ma.sx((self.key() if self.amt is not None else ma.sym)) if ma else '-',
                [self.cost[0], self.cvirt] + self.cost[1].sx() if self.cost else '-',
                self.lot.sx() if self.lot else '-',
                {'': 'U', '*': 'C', '!': 'P'}[self.mark],
                self.assigned.sx() if self.assigned else '-',
                self.amt is None and self.computed is not None]


class XXact:
    def __init__(self, posts, date='2020/01/01', aux=None, state='', code=None, suffix='', note=None, meta=()):
        self.posts, self.date, self.aux, self.state, self.code, self.suffix, self.note, self.meta = \
            posts, date, aux, state, code, suffix, note, list(meta)

    def header(self, i):
        h = self.date + ('=' + self.aux if self.aux else '') + ' '
        if self.state:
            h += self.state + ' '
        if self.code is not None:
            h += '(%s) ' % self.code
        h += 'x%d%s' % (i, self.suffix)
        if self.note is not None:
            h += '  ; ' + self.note
        return h

    def text(self, i):
        lines = [self.header(i)] + ['    ; ' + m for m in self.meta] + [p.text() for p in self.posts]
        return '\n'.join(lines) + '\n'

    def sx(self):
        return ['xact', {'': 'U', '*': 'C', '!': 'P'}[self.state]] + [p.sx() for p in self.posts]

    def nulls(self):
        return [p for p in self.posts if p.amt is None and p.computed is None and p.must_balance()]

    bucket = None                         # the journal's bucket account (local name), if a bucket directive is in force

    def printed_posts(self):
        """the postings print writes a line for: the written ones, and the balancing posting finalize infers for a single
        posting under a bucket directive (it takes over the state of the posting it balances)"""
        if self.bucket and len(self.posts) == 1 and self.posts[0].kind != 'V' and self.posts[0].amt is not None:
            b = XPost(self.bucket, 'R', None, mark=self.posts[0].mark)
            b.root = self.posts[0].root
            return self.posts + [b]
        return self.posts


class Journal(list):
    """the transactions plus the directives around them"""
    bucket, bstyle, root = None, 0, None

    def derive(self, xs):
        j = Journal(xs)
        j.bucket, j.bstyle, j.root = self.bucket, self.bstyle, self.root
        return j

    def full_bucket(self):
        return None if not self.bucket else (self.root + ':' if self.root else '') + self.bucket


def upgrade(x):
    """xactlib.Xact -> XXact with XPost postings"""
    return XXact([XPost(p.acct, p.kind, p.amt, p.cost, p.lot) for p in x.posts], x.date)


# ------------------------------------------------------------------------------------ generators
def two_post(rng, st):
    """two-posting transactions: the shapes around print's `count == 2 && index == 2` elision"""
    s = rng.choice(list(X.COMMS))
    dec = X.COMMS[s][1]
    a = X.Amt.rand(rng, s, dec)
    k = rng.randrange(13)
    if k == 10 and rng.random() < 0.8:      # zero amounts are finding F8: keep them rare
        k = rng.choice([0, 1, 3, 4])
    A, B = rng.sample(X.ACCTS + UNUSUAL_ACCTS, 2)
    if k == 0:      # plain pair: elided
        ps = [XPost(A, 'R', a), XPost(B, 'R', a.neg())]
    elif k == 1:    # balanced-virtual pair: elided, sound
        ps = [XPost('BV:' + A, 'B', a), XPost('BV:' + B, 'B', a.neg())]
    elif k == 2:    # virtual pair: must NOT be elided, nothing forces the second amount (repaired defect, old F7)
        b = a.neg() if rng.random() < 0.5 else X.Amt.rand(rng, s, dec)
        ps = [XPost('V:' + A, 'V', a), XPost('V:' + B, 'V', b)]
    elif k == 3:    # different written precision, same commodity
        v = F(rng.randrange(1, 999))
        ps = [XPost(A, 'R', X.Amt(v, 0, s)), XPost(B, 'R', X.Amt(-v, dec + 1, s))]
    elif k == 4:    # same lot annotation on both: elided
        lot = X.Amt(F(rng.randrange(100, 999), 100), 2, '$')
        u = X.Amt(F(rng.randrange(1, 50)), 0, 'AAA')
        ps = [XPost(A, 'R', u, lot=lot), XPost(B, 'R', u.neg(), lot=lot)]
    elif k == 5:    # first elided in the source: second must be printed
        ps = [XPost(A, 'R', None), XPost(B, 'R', a)]
    elif k == 6:    # second elided in the source
        ps = [XPost(A, 'R', a), XPost(B, 'R', None)]
    elif k == 7:    # cost on the first: no elision, two commodities
        y = rng.choice([c for c in X.COMMS if c != s])
        price = X.Amt(F(rng.randrange(1, 9999), 100), 2, y)
        units = X.Amt(F(rng.randrange(1, 99)) * rng.choice([1, -1]), 0, s)
        if rng.random() < 0.5:
            ps = [XPost(A, 'R', units, ('u', price)), XPost(B, 'R', X.Amt(-price.value * units.value, 2, y))]
        else:
            ps = [XPost(A, 'R', units, ('t', price)), XPost(B, 'R', X.Amt(-price.value if units.value > 0 else price.value, 2, y))]
    elif k == 12:   # a same-commodity pair with WRITTEN costs on both legs (a transfer that notes the price): both amounts
        # must be printed - a cost cannot follow an amount that was left out
        y = rng.choice([c for c in X.COMMS if c != s])
        dec_u = X.COMMS[s][1]
        units = X.Amt(F(rng.randrange(1, 99999), 10 ** dec_u), dec_u, s)
        pu = F(rng.randrange(1, 99999), 100)
        tot = pu * units.value
        td = 2
        while tot * 10 ** td != int(tot * 10 ** td):
            td += 1
        def leg(sign):
            if rng.random() < 0.6:
                return ('u', X.Amt(pu, 2, y))
            return ('t', X.Amt(tot, td, y))
        kd = rng.choice(['R', 'R', 'R', 'B'])
        pre = 'BV:' if kd == 'B' else ''
        ps = [XPost(pre + A, kd, units, leg(1)), XPost(pre + B, kd, units.neg(), leg(-1))]
        if rng.random() < 0.25:
            ps[0].cvirt = ps[1].cvirt = True
        if rng.random() < 0.2:      # and with the same lot on both legs
            lot = X.Amt(pu, 2, y)
            ps[0].lot = ps[1].lot = lot
        x = XXact(ps)
        x.keep_cost_marks = rng.random() < 0.5
        if rng.random() < 0.2:
            ps.reverse()
        return x
    elif k == 8:    # two commodities, implied rate (costs calculated): no elision
        y = rng.choice([c for c in X.COMMS if c != s])
        ps = [XPost(A, 'R', a), XPost(B, 'R', X.Amt.rand(rng, y).neg())]
    elif k == 9:    # one real, one virtual with the same commodity: real alone cannot balance unless zero
        ps = [XPost('V:' + A, 'V', a), XPost('V:' + B, 'V', a)]
    elif k == 10:   # zero amounts (finding F8)
        z = X.Amt(0, dec, s)
        ps = [XPost(A, 'R', z), XPost(B, 'R', z)] if rng.random() < 0.5 else \
             [XPost(A, 'R', z), XPost(B, 'R', a), XPost(rng.choice(X.ACCTS), 'R', a.neg())]
    else:           # the second has a different lot: not the same commodity, no elision, implied rate between lots
        ps = [XPost(A, 'R', a), XPost(B, 'R', a.neg()), XPost('V:' + A, 'V', a)]
    if rng.random() < 0.2:
        ps.reverse()
    return XXact(ps)


def gen_assign(rng, st, acct=None):
    """balance assignment / assertion on a dedicated account whose running total is tracked; the total may carry a
    residue below the display precision (gen_residue): the computed amount is then printed rounded"""
    acct = acct or rng.choice(['Assets:Asg1', 'Assets:Asg2'])
    prev = st['asg'].get(acct, F(0))
    pdec = st.setdefault('asgdec', {}).get(acct, 2)
    base = F(round(prev * 100), 100)                          # targets are written with two decimals
    if rng.random() < 0.6 or pdec > 2:
        target = base + F(rng.randrange(1, 99999) * rng.choice([1, -1]), 100)
        p = XPost(acct, 'R', None, assigned=X.Amt(target, 2, '$'), computed=X.Amt(target - prev, max(2, pdec), '$'))
        st['asg_next'] = (acct, target)
        st['asgdec_next'] = 2 if target - prev == F(round((target - prev) * 100), 100) else pdec
    else:
        d = F(rng.randrange(1, 9999) * rng.choice([1, -1]), 100)
        p = XPost(acct, 'R', X.Amt(d, 2, '$'), assigned=X.Amt(prev + d, 2, '$'))
        st['asg_next'] = (acct, prev + d)
        st['asgdec_next'] = pdec
    other = XPost(rng.choice(X.ACCTS), 'R', None) if (rng.random() < 0.7 or pdec > 2) else \
        XPost(rng.choice(X.ACCTS), 'R', X.Amt(-(p.model_amt().value), 2, '$'))
    ps = [p, other]
    if rng.random() < 0.3:
        ps.reverse()
    return XXact(ps)


def gen_residue(rng, st):
    """a purchase at a per-unit price with 3 or 4 decimals whose cash leg is elided on an assignment account: the
    account's running total then carries digits below the two decimals `$` is displayed with"""
    acct = rng.choice(['Assets:Asg1', 'Assets:Asg2'])
    prev = st['asg'].get(acct, F(0))
    units = rng.choice([1, 3, 3, 5, 7, 15, 25, rng.randrange(1, 60)]) * rng.choice([1, 1, -1])
    dec = rng.choice([3, 3, 4])
    price = F(rng.randrange(10 ** (dec - 1), 10 ** (dec + 2)), 10 ** dec)
    p = XPost('Assets:Broker:X', 'R', X.Amt(F(units), 0, rng.choice(['AAA', 'CCC'])), ('u', X.Amt(price, dec, '$')))
    st['asg_next'] = (acct, prev - units * price)
    st['asgdec_next'] = max(st.setdefault('asgdec', {}).get(acct, 2), dec)
    st['follow_up'] = acct                       # an assignment on this account soon after
    ps = [p, XPost(acct, 'R', None)]
    if rng.random() < 0.3:
        ps.reverse()
    x = XXact(ps)
    x.keep_cost_marks = True
    return x


def gen_zero_cost(rng, st):
    """`0 AAA @ $2.00`: print must write the total cost `@@ $0.00`, not divide (repaired defect, old F28)"""
    return XXact([XPost('Assets:Broker:X', 'R', X.Amt(0, 0, 'AAA'), ('u', X.Amt(F(200, 100), 2, '$'))),
                  XPost('Assets:Bank', 'R', X.Amt(F(5), 2, '$')), XPost('Assets:Cash', 'R', None)])


def decorate(rng, x, plain=False):
    """states, codes, auxiliary date, notes, tags, unusual text, lot date/tag, virtual cost marks"""
    x.date = '2020/%02d/%02d' % (rng.randrange(1, 13), rng.randrange(1, 29))
    if plain:
        return x
    if rng.random() < 0.25:
        x.aux = '2020/%02d/%02d' % (rng.randrange(1, 13), rng.randrange(1, 29))
    r = rng.random()
    x.state = '*' if r < 0.2 else '!' if r < 0.3 else ''
    x.code = rng.choice(CODES)
    x.suffix = rng.choice(PAYEE_SUFFIX)
    x.note = rng.choice(XNOTES)
    if rng.random() < 0.15:
        x.meta = [rng.choice([':tag2:', 'key: second', 'more text'])]
        if x.note is None and rng.random() < 0.5:
            pass
    for p in x.posts:
        r = rng.random()
        if x.state == '':
            p.mark = '*' if r < 0.15 else '!' if r < 0.25 else ''
        elif r < 0.08:
            p.mark = '!' if x.state == '*' else '*'          # own mark under a marked transaction (repaired defect, old F27)
        elif r < 0.1:
            p.mark = x.state                                   # redundant mark
        p.note = rng.choice(PNOTES)
        if p.cost is not None and rng.random() < 0.25 and not getattr(x, 'keep_cost_marks', False):
            p.cvirt = True
        if p.lot is not None and p.cost is not None and rng.random() < 0.4:
            p.lotdate = rng.choice(LOT_DATES)
            p.lottag = rng.choice(LOT_TAGS)
        if rng.random() < 0.12 and not p.acct.startswith(('V:', 'BV:', 'Assets:Asg', 'Null:', 'x')):
            p.acct = rng.choice(UNUSUAL_ACCTS)
    return x


ALPHA = 'abcdefghijklmnopqrstuvwxyzABCDEFGHIJKLMNOPQRSTUVWXYZ'


def acct_of_len(rng, n, prefix=''):
    """an account name of exactly n characters (code points): segments, single blanks, a non-ASCII letter"""
    s = prefix + rng.choice(['Assets:', 'Expenses:', 'Liabilities:', 'Income:', 'Equity:'])
    while len(s) < n:
        r = rng.random()
        room = len(s) < n - 1
        if r < 0.08 and room and s[-1] not in ': ':
            s += ':'
        elif r < 0.15 and room and s[-1] not in ': ':
            s += ' '
        elif r < 0.18:
            s += 'é'
        else:
            s += rng.choice(ALPHA)
    return s


def printed_extra(x, p):
    """characters print adds around the account name: `* `/`! ` when the posting's state differs from the
    transaction's, and the () or [] of a virtual posting"""
    n = 2 if p.kind != 'R' else 0
    if p.mark and p.mark != x.state:
        n += 2
    return n


def relayout(rng, x):
    """rename the accounts so that the printed names sit around print's account column (36, or the longest
    name of the transaction): the longest exactly at the column C, the others at C-1, C-2, C, C-3 or anywhere in
    30..C - with the amounts of 9..14 and more characters this reaches every value of slip + amt_slip around 2"""
    C = rng.choice([36, 36, 36, 36, 36, 37, 38, 40, 43, 45])
    el = [p for p in x.posts if not p.acct.startswith(('Assets:Asg', 'Null:'))]
    if not el:
        return x
    longest = rng.choice(el)
    for p in el:
        if p is longest:
            t = C if rng.random() < 0.8 else C - 1
        else:
            t = rng.choice([C - 1, C - 1, C - 1, C - 2, C, C - 3, rng.randrange(30, C + 1)])
        prefix = {'R': '', 'V': 'V:', 'B': 'BV:'}[p.kind]
        p.acct = acct_of_len(rng, max(t - printed_extra(x, p), len(prefix) + 14), prefix)
    return x


def amt_of_width(rng, w):
    """an amount whose text is w characters long (9..14): `1234.56 EUR`, `$-12345.67`, `123456 AAA`"""
    for _ in range(50):
        sym = rng.choice(list(X.COMMS))
        dec = X.COMMS[sym][1]
        neg = rng.random() < 0.4
        fixed = len(sym) + (1 if X.COMMS[sym][0] == 'suf' else 0) + (dec + 1 if dec else 0) + (1 if neg else 0)
        d = w - fixed
        if 1 <= d <= 12:
            n = rng.randrange(10 ** (d - 1), 10 ** d) * 10 ** dec + rng.randrange(10 ** dec)
            a = X.Amt(F(-n if neg else n, 10 ** dec), dec, sym)
            if len(a.text()) == w:
                return a
    return X.Amt.rand(rng, '$')


def gen_layout(rng, st):
    """2-4 postings of one commodity whose amounts render in 9..14 characters, the last one elided or written"""
    a = amt_of_width(rng, rng.choice([9, 10, 11, 11, 11, 12, 12, 13, 14]))
    k = rng.choice([2, 2, 2, 3, 4])
    vals = [a]
    for _ in range(k - 2):
        b = amt_of_width(rng, rng.choice([10, 11, 11, 12, 13]))
        vals.append(X.Amt(b.value, a.dec, a.sym) if b.dec == a.dec else X.Amt(F(rng.randrange(10 ** 5, 10 ** 7), 10 ** a.dec), a.dec, a.sym))
    kind = rng.choice(['R', 'R', 'R', 'B'])
    ps = [XPost('x', kind, v) for v in vals]
    tot = sum(v.value for v in vals)
    ps.append(XPost('x', kind, None if rng.random() < 0.5 else X.Amt(-tot, a.dec, a.sym)))
    if rng.random() < 0.3:
        ps.append(XPost('x', 'V', amt_of_width(rng, rng.choice([10, 11, 12]))))
    rng.shuffle(ps)
    return XXact(ps)


def gen_lot_cost(rng, st):
    """a posting with BOTH a lot price {P} and a written cost: per-unit or total, equal to / above / below
    lot price x quantity, a sale or a purchase, plain or (virtual) cost; finalize rewrites the posting's cost to the
    lot's basis when the two differ, print must still show the cost as written"""
    sym = rng.choice(['AAA', 'BBB', 'CCC'])
    dec = rng.choice([0, 0, X.COMMS[sym][1]])
    units = F(rng.randrange(1, 500), 10 ** dec) * rng.choice([1, 1, -1, -1, -1])
    y = rng.choice(['$', '$', 'EUR'])
    lotp = F(rng.randrange(100, 99999), 100)
    delta = F(rng.choice([0, 0, 1, -1, 25, -40, 1000, -999, 12345]), rng.choice([1, 100, 100, 1000]))
    if rng.random() < 0.5:
        price = lotp + delta                                    # per unit
        if price <= 0:
            price = lotp
        pd = 2 if price * 100 == int(price * 100) else 3
        cost = ('u', X.Amt(price, pd, y))
    else:
        total = abs(lotp * units) + delta * rng.choice([1, 10])  # total
        if total <= 0:
            total = abs(lotp * units)
        td = 2
        while total * 10 ** td != int(total * 10 ** td):
            td += 1
        cost = ('t', X.Amt(total, td, y))
    p = XPost(rng.choice(['Assets:Broker:X', 'Assets:Broker:Y']), 'R', X.Amt(units, dec, sym), cost, X.Amt(lotp, 2, y),
              cvirt=rng.random() < 0.3)
    if rng.random() < 0.3:
        p.lotdate = rng.choice(['2019/01/01', '2018/12/31'])
    if rng.random() < 0.2:
        p.lottag = rng.choice(['lot note', 'L1'])
    ps = [p, XPost(rng.choice(['Assets:Bank', 'Assets:Cash']), 'R', None)]
    if rng.random() < 0.3:
        a = X.Amt.rand(rng, y, 2)
        ps.insert(rng.randrange(3), XPost('Income:Job', 'R', a))
    x = XXact(ps)
    x.keep_cost_marks = True
    return x


def gen_xact(rng, st):
    if rng.random() < 0.1:
        return relayout(rng, decorate(rng, gen_layout(rng, st)))
    r = rng.random()
    if r < 0.30:
        x = two_post(rng, st)
    elif r < 0.50:
        x = upgrade(X.gen_balanced(rng))
    elif r < 0.62:
        x = upgrade(X.add_null(rng, X.gen_balanced(rng, with_costs=False)))
    elif r < 0.66:
        x = upgrade(X.gen_half_unit(rng))
    elif r < 0.74:
        x = upgrade(X.gen_two_commodity(rng))
    elif r < 0.79:
        x = upgrade(X.gen_lot(rng))
    elif r < 0.86:
        x = gen_lot_cost(rng, st)
    elif r < 0.89:
        x = gen_assign(rng, st)
    elif r < 0.935:
        x = gen_residue(rng, st)
    elif r < 0.94:
        x = gen_zero_cost(rng, st)
    else:
        x = upgrade(X.gen_balanced(rng, ncomm=3))
    x = decorate(rng, x)
    if rng.random() < 0.3:
        x = relayout(rng, x)
    return x


def gen_single(rng, st):
    """a transaction with ONE posting, to be balanced against the bucket account: `*`/`!` on the header or on the posting,
    a plain or [balanced] posting (a (virtual) one needs no balancing), sometimes with a cost"""
    kind = 'R' if rng.random() < 0.8 else rng.choice(['B', 'B', 'V'])
    s = rng.choice(list(X.COMMS))
    a = X.Amt.rand(rng, s, X.COMMS[s][1])
    if rng.random() < 0.4:
        a = a.neg()
    cost = None
    if rng.random() < 0.2:
        y = rng.choice([c for c in X.COMMS if c != s])
        cost = (rng.choice(['u', 't']), X.Amt(F(rng.randrange(1, 99999), 100), 2, y))
    x = decorate(rng, XXact([XPost(X.acct_of(rng, kind), kind, a, cost)]))
    x.state = rng.choice(['*', '*', '!', '!', ''])
    x.posts[0].mark = rng.choice(['', '', '', '*', '!'])
    return x


def gen_journal(rng):
    st = dict(asg={})
    xs = Journal()
    if rng.random() < 0.3:
        xs.bucket = rng.choice(['Assets:Checking', 'Assets:My Bucket', 'Equity:Bücket & co'])
        xs.bstyle = rng.randrange(len(X.BUCKET_STYLES))
        xs.root = rng.choice([None, None, 'Root', 'Personal:Y 2021'])
    for _ in range(rng.randrange(3, 11)):
        st.pop('asg_next', None)
        if st.get('follow_up') and rng.random() < 0.6:
            x = decorate(rng, gen_assign(rng, st, st.pop('follow_up')))
        else:
            x = gen_single(rng, st) if (xs.bucket and rng.random() < 0.35) else gen_xact(rng, st)
        x.bucket = xs.bucket
        for p in x.posts:
            p.root = xs.root
        xs.append(x)
        if 'asg_next' in st:
            x.asg = st['asg_next']
            st['asg'][x.asg[0]] = x.asg[1]
            st.setdefault('asgdec', {})[x.asg[0]] = st.pop('asgdec_next', 2)
    return xs


def render(xs):
    if getattr(xs, 'bucket', None) or getattr(xs, 'root', None):
        return X.render_journal(xs, bucket=xs.bucket, root=xs.root, bucket_style=xs.bstyle)
    return '\n'.join(x.text(i) for i, x in enumerate(xs))


def journal_sx(jid, xs):
    b = xs.full_bucket() if isinstance(xs, Journal) else None
    return lib.sx(['journal', jid, ['bucket', b.encode() if b else '-']] + [x.sx() for x in xs])


# ------------------------------------------------------------------------------------ reading ledger's output
def canon_key(sym, ann):
    """commodity symbol + annotation text as ledger writes it -> the canonical key of XPost.key()"""
    if not ann or not ann.strip():
        return sym or None
    k = sym + '~'
    m = re.search(r'\{=?\s*([^}]*)\}', ann)
    if m:
        a = parse_amount_text(m.group(1).strip())
        k += '{%s/%s %s}' % (a[1].numerator, a[1].denominator, a[0])
    m = re.search(r'\[([^\]]*)\]', ann)
    if m:
        k += '[%s]' % m.group(1)
    m = re.search(r'\(([^)]*)\)', ann)
    if m:
        k += '(%s)' % m.group(1)
    return k


AMT_RE = re.compile(r'^(?P<pre>"[^"]*"|[^\d\s\-.,"]+)?\s*(?P<num>-?[\d.,]*\d)\s*(?P<suf>"[^"]*"|[^\d\s\-.,"]+)?$')


def parse_amount_text(s):
    """`$-3.00`, `10 AAA`, `CCC2`, `0` -> (symbol, Fraction, decimals)"""
    m = AMT_RE.match(s.strip())
    if not m:
        raise ValueError('amount text %r' % s)
    sym = (m.group('pre') or m.group('suf') or '').strip('"')
    num = m.group('num').replace(',', '')
    dec = len(num.split('.')[1]) if '.' in num else 0
    return (sym, F(num), dec)


def hook_amount(r):
    """verif_rational text -> (canonical key, Fraction) or None"""
    m = re.fullmatch(r'A:([0-9a-f]*)(?:~([0-9a-f]*))?:(-?\d+)/(\d+):(\d+):([01])', r)
    if not m:
        return None
    sym = bytes.fromhex(m.group(1)).decode('utf-8', 'replace')
    ann = bytes.fromhex(m.group(2)).decode('utf-8', 'replace') if m.group(2) else ''
    return (canon_key(sym, ann), F(int(m.group(3)), int(m.group(4))), int(m.group(5)))


def show_kq(c):
    return '?' if c is None else '%s:%s/%s' % (c[0] or '', c[1].numerator, c[1].denominator)


def parse_rows(out):
    """reg output -> {xact index: [row dict]}"""
    rows = {}
    for line in out.decode('utf-8', 'replace').split('\n'):
        f = line.split('|')
        if len(f) != 15:
            continue
        m = re.match(r'x(\d+)', f[0])
        if not m:
            continue
        amt, cost = hook_amount(f[9]), hook_amount(f[10])
        rows.setdefault(int(m.group(1)), []).append(dict(
            payee=f[0], acct=f[1], virtual=f[2], date=f[3], aux=f[4], cleared=f[5], pending=f[6], code=f[7], note=f[8],
            amt=amt, cost=cost, calculated=f[11], generated=f[12] != 'true', tags=f[13], tagval=f[14],
            model='%s,%s,%s,%s' % (f[1], 'v' if f[2] == 'true' else 'r', show_kq(amt), show_kq(cost))))
    return rows


def split_amount_expr(s):
    """`AMT [{lot}] [[date]] [(tag)] [@|@@|(@)|(@@) COST] [= ASSIGNED]` -> dict of raw parts"""
    assigned = None
    m = re.search(r'(?:^|\s)=\s+(.*)$', s)
    if m:
        assigned = m.group(1).strip()
        s = s[:m.start()]
    cost = None
    m = re.search(r'(?:^|\s)(\(@@?\)|@@?)\s+(.*)$', s)
    if m:
        op = m.group(1)
        cost = (('t' if '@@' in op else 'u') + ('v' if op.startswith('(') else ''), m.group(2).strip())
        s = s[:m.start()]
    s = s.strip()
    ann = ''
    m = re.search(r'\s[{\[(]', s)
    if m:
        ann = s[m.start():]
        s = s[:m.start()]
    return dict(amt=s.strip() or None, ann=ann, cost=cost, assigned=assigned)


def show_tok_amt(a, key=None):
    return '%s:%s/%s:%d' % (key if key is not None else a[0], a[1].numerator, a[1].denominator, a[2])


def tokenize_print(text):
    """ledger's print output -> {xact index: [decision line strings in the driver's `L` format]}"""
    res = {}
    cur = None
    for line in text.split('\n'):
        if not line.strip():
            cur = None
            continue
        if not line.startswith(' '):
            m = re.search(r'\bx(\d+)', line)
            cur = int(m.group(1)) if m else None
            if cur is not None:
                res[cur] = []
            continue
        if cur is None:
            continue
        body = line[4:] if line.startswith('    ') else line.lstrip()
        if body.startswith(';'):
            continue
        mark = 'U'
        if body.startswith('* '):
            mark, body = 'C', body[2:]
        elif body.startswith('! '):
            mark, body = 'P', body[2:]
        m = re.search(r'(  |\t)', body)
        acct, rest = (body[:m.start()], body[m.end():].strip()) if m else (body.rstrip(), '')
        kind = 'R'
        if acct.startswith('(') and acct.endswith(')'):
            kind, acct = 'V', acct[1:-1]
        elif acct.startswith('[') and acct.endswith(']'):
            kind, acct = 'B', acct[1:-1]
        if rest.startswith(';'):
            rest = ''
        else:
            rest = re.split(r'\s\s;', rest, 1)[0].strip()
        try:
            parts = split_amount_expr(rest) if rest else dict(amt=None, ann='', cost=None, assigned=None)
            amt = lot = '-'
            if parts['amt'] is not None:
                a = parse_amount_text(parts['amt'])
                key = canon_key(a[0], parts['ann']) or ''
                amt = show_tok_amt(a, key)
                m = re.search(r'\{=?\s*([^}]*)\}', parts['ann'])
                if m:
                    la = parse_amount_text(m.group(1).strip())
                    lot = '%s:%s/%s' % (la[0], la[1].numerator, la[1].denominator)
            cost = '-'
            if parts['cost']:
                cost = parts['cost'][0] + ' ' + show_tok_amt(parse_amount_text(parts['cost'][1]))
            assigned = '-'
            if parts['assigned']:
                assigned = show_tok_amt(parse_amount_text(parts['assigned']))
        except ValueError as e:      # text print should never write: kept as a token no model line can equal
            amt, lot, cost, assigned = '?unparsed %s' % rest, '-', '-', '-'
        res[cur].append('%s|%s|%s|%s|%s|%s|%s' % (acct.encode().hex(), kind, mark, amt, lot, cost, assigned))
    return res


def posting_lines(text):
    """ledger's print output -> {xact index: [raw posting line, ...]} (note lines left out)"""
    res, cur = {}, None
    for line in text.split('\n'):
        if not line.strip():
            cur = None
        elif not line.startswith(' '):
            m = re.search(r'\bx(\d+)', line)
            cur = int(m.group(1)) if m else None
            if cur is not None:
                res[cur] = []
        elif cur is not None and not line.lstrip().startswith(';'):
            res[cur].append(line)
    return res


def measure_line(line, p):
    """one printed posting line against the posting it was printed for ->
    (ok name, printed name length, blanks after the name, amount text length, separated)"""
    body = line[4:]
    mark = ''
    if body.startswith(('* ', '! ')):
        mark, body = body[:2], body[2:]
    name = {'R': '%s', 'V': '(%s)', 'B': '[%s]'}[p.kind] % p.full()
    if not body.startswith(name):
        return (False, 0, 0, 0, False)
    rest = body[len(name):]
    separated = (rest == '' or rest.startswith('  ') or rest.startswith('\t'))
    blanks = len(rest) - len(rest.lstrip(' '))
    content = rest.lstrip(' ')
    if content.startswith(';'):
        return (True, len(mark) + len(name), blanks - 2, 0, separated)
    content = re.split(r'\s\s;', content, 1)[0].rstrip()
    alen = 0
    if content:
        parts = split_amount_expr(content)
        alen = len((parts['amt'] or '') + parts['ann'])
    return (True, len(mark) + len(name), blanks, alen, separated)


def zero_amount_style_lost(xs, t1, t2):
    """finding F8 seen through the commodity's style: a commodity whose only posting amount is a zero (printed as a bare 0)
    and which otherwise occurs in costs and lot prices only (these teach no style) has no style in the printed journal, so the
    second print places its symbol differently (`EUR280.26` for `280.26 EUR`).  True when every differing line names such a commodity."""
    taught, zero = set(), set()
    for x in xs:
        for p in x.posts:
            for a in (p.amt, p.assigned, p.computed):
                if a is not None and a.sym:
                    (zero if (a is p.amt and a.value == 0) else taught).add(a.sym)
    lost = zero - taught
    l1, l2 = t1.split('\n'), t2.split('\n')
    return bool(lost) and len(l1) == len(l2) and all(a == b or any(c in a for c in lost) for a, b in zip(l1, l2))


def residue_assignments(xs):
    """how many balance assignments / assertions follow, on one account, a posting that left a residue below the display
    precision there (an elided leg of a per-unit cost with more decimals): each printed assignment rounds once more"""
    best = 0
    for acct in set(p.acct for x in xs for p in x.posts if p.assigned is not None):
        seen, n = False, 0
        for x in xs:
            for p in x.posts:
                if p.acct != acct:
                    continue
                if p.assigned is not None and seen:
                    n += 1
                elif p.amt is None and p.assigned is None and any(q.cost and q.cost[1].dec > X.COMMS[q.cost[1].sym][1] for q in x.posts):
                    seen = True
        best = max(best, n)
    return best


def differs_by_padding_only(t1, t2):
    """the two print outputs differ only by blanks at the end of posting lines (before a note or the line end): finding F50"""
    l1, l2 = t1.split('\n'), t2.split('\n')
    unpad = lambda l: re.sub(r' +(  ;.*)?$', lambda m: m.group(1) or '', l)
    return len(l1) == len(l2) and all(a == b or (a.startswith('    ') and unpad(a) == unpad(b)) for a, b in zip(l1, l2))


def parse_prices(out):
    """`prices` output -> sorted [(date, commodity, price commodity, Fraction, decimals shown)] or None"""
    res = []
    for l in out.decode('utf-8', 'replace').split('\n'):
        if not l.strip():
            continue
        m = re.match(r'(\S+)\s+(\S+)\s+(.*\S)\s*$', l)
        if not m:
            return None
        try:
            a = parse_amount_text(m.group(3))
        except ValueError:
            return None
        res.append((m.group(1), m.group(2), a[0], a[1], a[2]))
    return sorted(res)


def same_prices(h1, h2):
    """equal dates and commodities, and the numbers agree to the digits both sides show (a price is a quotient and
    is shown with as many digits as the operands happened to carry)"""
    return len(h1) == len(h2) and all(a[:3] == b[:3] and abs(a[3] - b[3]) <= F(1, 10 ** min(a[4], b[4])) for a, b in zip(h1, h2))


def parse_bal(out):
    """bal --flat rows -> {(account, base commodity): Fraction} without zero entries (lots merged)"""
    tot = {}
    for line in out.decode('utf-8', 'replace').split('\n'):
        f = line.split('|')
        if len(f) != 2 or not f[0]:
            continue
        v = f[1]
        ents = v[2:].split(';') if v.startswith('B:') else [v] if v.startswith('A:') else []
        for e in ents:
            if not e.startswith('A:'):
                e = 'A:' + e
            m = re.fullmatch(r'A:([0-9a-f]*)(?:~[0-9a-f]*)?:(-?\d+)/(\d+):\d+:[01]', e)
            if m:
                k = (f[0], bytes.fromhex(m.group(1)).decode('utf-8', 'replace'))
                tot[k] = tot.get(k, 0) + F(int(m.group(2)), int(m.group(3)))
    return {k: v for k, v in tot.items() if v != 0}


BAL_FMT = '%(account)|%(verif_rational(amount))\\n'


# ------------------------------------------------------------------------------------ one journal
def features(x):
    f = set()
    if len(x.posts) == 2:
        f.add('two-postings')
    if len(x.posts) == 1 and x.bucket:
        f.add('bucket-single%s%s' % ('-marked-header' if x.state else '', '-marked-posting' if x.posts[0].mark else ''))
    for p in x.posts:
        if p.cost:
            f.add('cost-' + p.cost[0] + ('-virtual' if p.cvirt else ''))
            if len(x.posts) == 2 and all(q.cost and q.amt is not None and q.amt.sym == p.amt.sym for q in x.posts):
                f.add('pair-same-commodity-both-costs')
        if p.lot:
            f.add('lot')
        if p.lotdate or p.lottag:
            f.add('lot-date/tag')
        if p.kind != 'R':
            f.add('kind-' + p.kind)
        if p.amt is None and p.assigned is None:
            f.add('elided')
        if p.assigned is not None:
            f.add('assigned' if p.amt is None else 'asserted')
        if p.mark:
            f.add('post-mark')
            if x.state and p.mark != x.state:
                f.add('mark-pair:xact%s-post%s' % (x.state, p.mark))      # both orders of the two marks must round-trip
        if p.note:
            f.add('post-note')
        if p.amt is not None and p.amt.value == 0:
            f.add('zero-amount')
    if x.state:
        f.add('xact-state')
    if x.code is not None:
        f.add('code')
    if x.aux:
        f.add('aux-date')
    if x.note or x.meta:
        f.add('xact-note/tags')
    if x.suffix:
        f.add('unusual-payee')
    return f


def bad_xacts(err, text):
    """stderr -> set of transaction indices an error is attributed to (header `> DATE .. xN ..` of the
    error context, or the line number mapped through the rendered text)"""
    bad = set()
    starts = []
    for n, l in enumerate(text.split('\n'), 1):
        if l and not l.startswith(' '):
            m = re.search(r'\bx(\d+)', l)
            if m:
                starts.append((n, int(m.group(1))))
    for block in re.split(r'(?=While parsing file)', err.decode('utf-8', 'replace')):
        if 'Error:' not in block:
            continue
        m = re.search(r'^> \d\S* .*?\bx(\d+)', block, re.M)
        if m:
            bad.add(int(m.group(1)))
            continue
        h = re.search(r'While parsing file "[^"]*", lines? (\d+)', block)
        if h:
            ln = int(h.group(1))
            prev = [i for (n, i) in starts if n <= ln]
            if prev:
                bad.add(prev[-1])
    return bad


def accepted_journal(ctx, rng, j):
    """generate a journal and drop the transactions ledger rejects, until ledger accepts it"""
    xs = gen_journal(rng)
    path = ctx.path('C06_%d.dat' % (j % 8))
    for _ in range(4):
        text = render(xs)
        open(path, 'w').write(text)
        st, out, err = lib.run_ledger(['-f', path, 'reg', '--empty', '--no-rounding', '--format', FMT] + NOW)
        if st == 0 and not err.strip():
            return xs, text, path, out
        bad = bad_xacts(err, text)
        if not bad:
            return None
        # an assignment account's running total changes when one of its transactions goes away: drop the later ones too
        accts = set(getattr(xs[i], 'asg', (None,))[0] for i in bad) - {None}
        first_bad = min(bad)
        xs = xs.derive([x for i, x in enumerate(xs) if i not in bad and not (i > first_bad and getattr(x, 'asg', (None,))[0] in accts)])
        if not xs:
            return None
    return None


ROW_FIELDS = ['payee', 'acct', 'virtual', 'date', 'aux', 'cleared', 'pending', 'code', 'note', 'tags', 'tagval']


def classify_row_diff(field, a, b, x=None, k=None):
    """a specific, stable key for a difference between an original row and the re-read one"""
    if field in ('cleared', 'pending'):
        pp = x.printed_posts() if x is not None else []
        p = pp[k] if (k is not None and k < len(pp)) else None
        if p is not None and x.state and p.mark and p.mark != x.state:
            return 'reread-rows:posting-state-lost-under-marked-xact'
        return 'reread-rows:state'
    if field == 'amt':
        if a and b and a[1] == 0 and b[1] == 0:
            return 'reread-rows:zero-amount-commodity-lost'
        return 'reread-rows:amount'
    return 'reread-rows:' + field


def run_one(ctx, res, j, xs, text, path, out_reg, model, layout_cases, idem_cases):
    jid = 'j%d' % j
    rows = parse_rows(out_reg)
    case = dict(journal=text)
    feats = set()
    for x in xs:
        feats |= features(x)
    for f in feats:
        res.count('feature:' + f)
    res.evaluations += len(xs)
    mm = {}
    for l in model:
        p = l.split(' ', 3)
        if p[0] == jid:
            mm.setdefault((int(p[1]), p[2]), []).append(p[3] if len(p) > 3 else '')
    od = set(k[0] for k in mm if k[1] == 'ORDER-DEPENDENT')
    order_dep = False
    if od:
        res.count('model:order-dependent-xacts', len(od))
    # ---- print J -> P, re-read, print again
    stp, P, errp = lib.run_ledger(['-f', path, 'print'] + NOW)
    Ptext = P.decode('utf-8', 'replace')
    ppath = ctx.path('C06_%d_P.dat' % (j % 8))
    open(ppath, 'wb').write(P)
    model_perr = [k for k in mm if k[1] == 'P']
    if stp != 0 or errp.strip():
        cls = 'DivZero' if b'Divide by zero' in errp else 'Other'
        res.count('print-fails:' + cls)
        zero_cost = any(p.cost and p.cost[0] == 'u' and p.amt is not None and p.amt.value == 0 for x in xs for p in x.posts)
        res.violations.append(dict(
            key='print-fails:' + (cls + ':zero-amount-with-per-unit-cost' if (cls == 'DivZero' and zero_cost) else cls),
            desc='print of an accepted journal fails: %s' % errp.decode('utf-8', 'replace')[-200:], case=case,
            observed='status %s' % stp, required='a journal text'))
        if not order_dep:
            res.traces += 1
            if not model_perr:
                res.disagreements.append(dict(name='C06/print-error', case=text, impl='print fails ' + cls, model='no error'))
            elif mm[model_perr[0]][0] != 'ERR ' + cls:
                res.disagreements.append(dict(name='C06/print-error', case=text, impl='ERR ' + cls, model=mm[model_perr[0]][0]))
        return
    if model_perr and not order_dep:
        res.disagreements.append(dict(name='C06/print-error', case=text, impl='print succeeds', model=mm[model_perr[0]][0]))
        return
    toks = tokenize_print(Ptext)
    # ---- oracle 0a (journal syntax): what follows the account on a posting line is `AMOUNT [@ COST] [= ASSIGNED]`; a cost
    # without the amount it prices is not a posting the reader accepts
    for i, x in enumerate(xs):
        for t in toks.get(i, []):
            f = t.split('|')
            if f[3].startswith('?unparsed') or (f[3] == '-' and f[5] != '-'):
                res.violations.append(dict(key='print-line:cost-without-amount' if f[5] != '-' else 'print-line:unparsable',
                                           desc='x%d: the posting line for %s reads %r' % (i, bytes.fromhex(f[0]).decode('utf-8', 'replace'), t),
                                           case=dict(journal=text, printed=Ptext, xact=i), observed=t,
                                           required='an amount before any cost'))
    # ---- oracle 0b (cost details): the cost text of a printed posting denotes the cost AS WRITTEN - same kind of mark
    # (a per-unit cost on a zero amount may only be shown as the total, which is then zero), same (virtual) marking,
    # exactly the written number and commodity - whatever finalize made of the posting's cost (lot basis, gain/loss)
    for i, x in enumerate(xs):
        tl = toks.get(i)
        if tl is None or len(tl) != len(x.printed_posts()):
            continue
        for k, (t, p) in enumerate(zip(tl, x.printed_posts())):
            shown = t.split('|')[5]
            if p.cost is None or p.amt is None:
                want = '-'
            else:
                kind, c = p.cost
                val = c.value
                if kind == 'u' and p.amt.value == 0:
                    kind, val = 't', F(0)
                want = '%s%s %s:%s/%s' % (kind, 'v' if p.cvirt else '', c.sym, val.numerator, val.denominator)
            got = shown if shown == '-' else ':'.join(shown.split(':')[:-1])
            if got != want:
                res.count('print-cost-differs')
                res.violations.append(dict(key='print-cost:written-cost-not-shown' + (':lot-priced-posting' if p.lot is not None else ''),
                                           desc='x%d %s: the cost was written as %r, print shows %r' % (i, p.acct, want, got),
                                           case=dict(journal=text, printed=Ptext, xact=i), observed=got, required=want))
            elif p.cost is not None and p.lot is not None:
                basis = abs(p.lot.value * p.amt.value)
                given = abs(p.cost[1].value * p.amt.value) if p.cost[0] == 'u' else p.cost[1].value
                res.count('lot+cost:%s%s:%s' % (p.cost[0], '-virtual' if p.cvirt else '', 'cost=basis' if given == basis else 'cost!=basis'))
    # ---- oracle 0 (journal syntax): in every printed posting line the account name is followed by nothing, by two
    # blanks or by a tab - with less the reader takes the amount for a part of the account name.  The same pass
    # collects the raw layout of the line for the correspondence with Model/Print.v sep_blanks.
    plines = posting_lines(Ptext)
    pad_lines = []
    for i, x in enumerate(xs):
        ls = plines.get(i)
        pps = x.printed_posts()
        if ls is None or len(ls) != len(pps):
            continue
        meas = [measure_line(l, p) for l, p in zip(ls, pps)]
        for (okn, nlen, blanks, alen, sep), l, p in zip(meas, ls, pps):
            if not okn:
                res.violations.append(dict(key='print-line:account-name', desc='x%d: the line %r does not show the account %r' % (i, l, p.acct),
                                           case=dict(journal=text, printed=Ptext, xact=i), observed=l, required=p.acct))
            elif not sep:
                res.violations.append(dict(key='print-line:account-amount-separator',
                                           desc='x%d: fewer than two blanks between the account name and the amount in %r' % (i, l),
                                           case=dict(journal=text, printed=Ptext, xact=i), observed=l,
                                           required='account name, then at least two blanks or a tab, then the amount'))
        if all(m[0] for m in meas):
            layout_cases.append(('%sx%d' % (jid, i), [(m[1], m[3], p.amt is None and p.computed is None) for m, p in zip(meas, pps)],
                                 [m[2] for m in meas], x.text(i), ls))
            pad_lines += [('%sx%d' % (jid, i), k) for k, (m, p) in enumerate(zip(meas, pps)) if m[3] == 0 and not (p.amt is None and p.computed is None)]
            w = max([36] + [m[1] for m in meas])
            for m in meas:
                gap = (w - m[1]) + (max(0, 12 - m[3]) if m[3] else 0)
                res.count('layout:gap-%s%s' % ('amount' if m[3] else 'elided', '=%d' % gap if gap < 4 else '>=4'))
    st2, out2, err2 = lib.run_ledger(['-f', ppath, 'reg', '--empty', '--no-rounding', '--format', FMT] + NOW)
    rows2 = parse_rows(out2)
    errs2 = X.parse_errors(err2, ppath, None) if err2.strip() else {}
    st3, P2, err3 = lib.run_ledger(['-f', ppath, 'print'] + NOW)
    reread_ok = (st2 == 0 and not err2.strip())
    # ---- correspondence
    if not order_dep:
        for i, x in enumerate(xs):
            if i in od:
                continue
            res.traces += 1
            impl_x = 'OK ' + ';'.join(r['model'] for r in rows.get(i, []))
            mod_x = (mm.get((i, 'X')) or ['MISSING'])[0]
            if impl_x != mod_x:
                res.disagreements.append(dict(name='C06/finalize', case=x.text(i), journal=text, impl=impl_x, model=mod_x))
            if ((i, 'N') in mm) != (i not in toks):
                res.disagreements.append(dict(name='C06/xact-printed', case=x.text(i), journal=text,
                                              impl='printed' if i in toks else 'not printed', model='not printed' if (i, 'N') in mm else 'printed'))
            if (i, 'N') in mm or i not in toks:
                res.count('xact-not-printed')
                continue
            impl_l = toks.get(i, [])
            mod_l = mm.get((i, 'L'), [])
            if impl_l != mod_l:
                res.disagreements.append(dict(name='C06/print-decisions', case=x.text(i), journal=text, impl=impl_l, model=mod_l))
            mod_r = (mm.get((i, 'R')) or ['MISSING'])[0]
            if reread_ok:
                impl_r = 'OK ' + ';'.join(r['model'] for r in rows2.get(i, []))
                if impl_r != mod_r:
                    res.disagreements.append(dict(name='C06/reread-finalize', case=x.text(i), journal=text, printed=Ptext, impl=impl_r, model=mod_r))
        # when the re-read fails, the model must predict a failure as well (which transaction is an impl detail of error recovery)
        mod_fail = [k for k in mm if k[1] == 'R' and mm[k][0].startswith('ERR')]
        if (not reread_ok) != bool(mod_fail) and not od:
            res.disagreements.append(dict(name='C06/reread-accept', case=text, printed=Ptext,
                                          impl='re-read %s: %s' % ('ok' if reread_ok else 'fails', err2.decode('utf-8', 'replace')[-200:]),
                                          model=[(k, mm[k][0]) for k in mod_fail]))
        if reread_ok and st3 == 0 and not od:
            mod_same = all(mm.get((i, 'I'), ['SAME'])[0] == 'SAME' for i in range(len(xs)))
            # the bytes also depend on the padding after an amount print left out (finding F50): decided once the
            # layout model has run
            if P2 != P and zero_amount_style_lost(xs, Ptext, P2.decode('utf-8', 'replace')):
                res.count('idempotence-skipped:style-of-zero-amount-commodity')      # commodity styles are not modelled (C04)
            else:
                idem_cases.append((text, P2 == P, mod_same, pad_lines, [(i, mm.get((i, 'I'))) for i in range(len(xs))]))
    # ---- oracle 1: the rows of J equal the rows of the re-read print
    nontrivial = False
    jpool = {}                                   # display precision per commodity: the most decimals written in a posting amount
    for x in xs:
        for p in x.posts:
            for a in (p.amt, p.assigned):
                if a is not None and a.sym:
                    jpool[a.sym] = max(jpool.get(a.sym, 0), a.dec)
    if not reread_ok:
        virt_pair = any(len(x.posts) == 2 and all(p.kind == 'V' and p.amt is not None for p in x.posts) for x in xs)
        msg = err2.decode('utf-8', 'replace')
        cls = 'NullLeft' if 'There cannot be null amounts after balancing' in msg else \
            'Unbalanced' if 'does not balance' in msg else 'TwoNulls' if 'Only one posting with null amount' in msg else \
            'AssertOff' if 'Balance assertion off by' in msg else 'BadAmount' if 'No quantity specified for amount' in msg else 'Other'
        inexact = any(p.cost and p.cost[0] == 'u' and p.cost[1].dec > X.COMMS[p.cost[1].sym][1] for x in xs for p in x.posts)
        res.violations.append(dict(
            key='reread-fails:' + cls + (':virtual-pair-elided' if (virt_pair and cls == 'NullLeft') else '') +
                (':display-zero-residual-under-grown-precision' if (inexact and cls == 'Unbalanced') else '') +
                (':accumulated-assignment-residues' if (cls == 'AssertOff' and residue_assignments(xs) >= 2) else ''),
            desc='the text printed for an accepted journal is not accepted: %s' % msg[-300:],
            case=dict(journal=text, printed=Ptext), observed=msg[-300:], required='accepted'))
        res.count('reread-fails:' + cls)
    else:
        for i, x in enumerate(xs):
            a, b = rows.get(i, []), rows2.get(i, [])
            nontrivial = True
            if len(a) != len(b):
                allzero = bool(a) and not b and all(r['amt'] is not None and r['amt'][1] == 0 for r in a)
                res.violations.append(dict(key='reread-rows:all-zero-transaction-not-printed' if allzero else 'reread-rows:count', desc='transaction x%d has %d postings, re-read %d' % (i, len(a), len(b)),
                                           case=dict(journal=text, printed=Ptext, xact=i), observed=len(b), required=len(a)))
                continue
            for k, (ra, rb) in enumerate(zip(a, b)):
                for fld in ROW_FIELDS:
                    if ra[fld] != rb[fld]:
                        res.violations.append(dict(key=classify_row_diff(fld, ra[fld], rb[fld], x, k),
                                                   desc='x%d %s: %s was %r, re-read %r' % (i, ra['acct'], fld, ra[fld], rb[fld]),
                                                   case=dict(journal=text, printed=Ptext, xact=i), observed=rb[fld], required=ra[fld]))
                for fld in ('amt', 'cost'):
                    va, vb = ra[fld], rb[fld]
                    if (va and va[:2]) != (vb and vb[:2]):
                        # an amount computed from a balance assignment need only agree to display precision
                        # (so does the elided leg that balances it in the same transaction)
                        has_asg = any(p.assigned is not None and p.amt is None for p in x.posts)
                        asg = has_asg and any((p.amt is None) and p.full() == ra['acct'] for p in x.posts)
                        if asg and va and vb and va[0] == vb[0] and abs(va[1] - vb[1]) * 2 <= F(1, 10 ** jpool.get(va[0], 0)):
                            res.count('assigned-amount-to-display-precision')
                            continue
                        res.violations.append(dict(key=classify_row_diff('amt', va, vb) if fld == 'amt' else
                                                   ('reread-rows:zero-amount-commodity-lost' if (va and vb and va[1] == 0 and vb[1] == 0) else
                                                    'reread-rows:cost:zero-amount-commodity-lost' if any(r['amt'] and r['amt'][1] == 0 for r in a) else 'reread-rows:cost'),
                                                   desc='x%d %s: %s was %s, re-read %s' % (i, ra['acct'], fld, show_kq(va), show_kq(vb)),
                                                   case=dict(journal=text, printed=Ptext, xact=i), observed=show_kq(vb), required=show_kq(va)))
        # ---- oracle 1b: the prices ledger records from the written costs are the same after the round trip
        sp1, pr1, pe1 = lib.run_ledger(['-f', path, 'prices'] + NOW)
        sp2, pr2, pe2 = lib.run_ledger(['-f', ppath, 'prices'] + NOW)
        h1, h2 = parse_prices(pr1), parse_prices(pr2)
        if sp1 == 0 and h1 is not None and (sp2 != 0 or h2 is None or not same_prices(h1, h2)):
            zero = any(p.amt is not None and p.amt.value == 0 for x in xs for p in x.posts)
            d = [(a, b) for a, b in zip(h1, h2 or []) if not same_prices([a], [b])][:3] or [(len(h1), len(h2 or []))]
            res.violations.append(dict(key=('reread-rows:cost:zero-amount-commodity-lost' if zero else 'reread-prices'),
                                       desc='the price history differs after print and re-read: %s' % d,
                                       case=dict(journal=text, printed=Ptext), observed=str(d), required='the same prices'))
        # ---- oracle 2: print is idempotent, byte for byte
        if st3 != 0 or P2 != P:
            only_padding = st3 == 0 and differs_by_padding_only(Ptext, P2.decode('utf-8', 'replace'))
            style_lost = st3 == 0 and zero_amount_style_lost(xs, Ptext, P2.decode('utf-8', 'replace'))
            res.violations.append(dict(key='reread-rows:zero-amount-commodity-lost' if style_lost else
                                       'print-not-idempotent' + (':padding-after-omitted-amount' if only_padding else ''),
                                       desc='print(print J) differs from print J' + (' (the style of a commodity whose only posting amount is a zero is not learnt from the bare 0)' if style_lost else ''),
                                       case=dict(journal=text, printed=Ptext), observed=P2.decode('utf-8', 'replace')[:2000], required=Ptext[:2000]))
    if nontrivial:
        for i, x in enumerate(xs):
            if features(x):
                res.nontrivial.add(x.text(0))
    if len(res.samples) < 4 and feats & {'cost-u', 'lot', 'assigned'}:
        res.samples.append(dict(journal=text[:1200], printed=Ptext[:1200]))
    return rows


def run_equity(ctx, res, j, xs, text, path, rows, eq_cases):
    """oracle 3 and the equity correspondence input"""
    st, Q, err = lib.run_ledger(['-f', path, 'equity'] + NOW)
    if st != 0 or err.strip():
        res.violations.append(dict(key='equity-fails', desc='equity fails: %s' % err.decode('utf-8', 'replace')[-200:], case=dict(journal=text),
                                   observed='status %s' % st, required='an opening-balances transaction'))
        return
    qpath = ctx.path('C06_%d_Q.dat' % (j % 8))
    open(qpath, 'wb').write(Q)
    s1, b1, e1 = lib.run_ledger(['-f', path, 'bal', '--flat', '--empty', '--format', BAL_FMT] + NOW)
    s2, b2, e2 = lib.run_ledger(['-f', qpath, 'bal', '--flat', '--empty', '--format', BAL_FMT] + NOW)
    res.count('equity-checked')
    if s2 != 0 or e2.strip():
        # finding F30 can also show as an unbalanced opening transaction: every balance is rounded to the display
        # precision separately, so the rounded postings need not sum to zero
        cp0 = {}
        for x in xs:
            for p in x.posts:
                for a in (p.amt, p.assigned):
                    if a is not None and a.sym:
                        cp0[a.sym] = max(cp0.get(a.sym, 0), a.dec)
        finer = any(r['amt'] and r['amt'][2] > cp0.get((r['amt'][0] or '').split('~')[0], 0) for i in rows for r in rows[i])
        key = 'equity-reread-fails'
        if finer and b'does not balance' in e2:
            key = 'equity-balance-differs:inferred-amount-rounded-to-display-precision'
        res.violations.append(dict(key=key, desc='the equity transaction is not accepted: %s' % e2.decode('utf-8', 'replace')[-200:],
                                   case=dict(journal=text, printed=Q.decode('utf-8', 'replace')), observed='error', required='accepted'))
        return
    t1 = {k: v for k, v in parse_bal(b1).items() if k[0] != 'Equity:Opening Balances'}
    t2 = {k: v for k, v in parse_bal(b2).items() if k[0] != 'Equity:Opening Balances'}
    if t1 != t2:
        diff = sorted(set(t1.items()) ^ set(t2.items()), key=str)[:6]
        cpool = {}
        for x in xs:
            for p in x.posts:
                for a in (p.amt, p.assigned):
                    if a is not None and a.sym:
                        cpool[a.sym] = max(cpool.get(a.sym, 0), a.dec)
        fine = set((r['acct'], (r['amt'][0] or '').split('~')[0]) for i in rows for r in rows[i]
                   if r['amt'] and r['amt'][2] > cpool.get((r['amt'][0] or '').split('~')[0], 0))
        rounded = all(k in fine and abs(t1.get(k, 0) - t2.get(k, 0)) * 2 <= F(1, 10 ** cpool.get(k[1], 0))
                      for k in set(t1) | set(t2) if t1.get(k, 0) != t2.get(k, 0))
        res.violations.append(dict(key='equity-balance-differs' + (':inferred-amount-rounded-to-display-precision' if rounded else ''), desc='balances after re-reading equity differ: %s' % diff,
                                   case=dict(journal=text, printed=Q.decode('utf-8', 'replace')), observed=str(diff), required='equal per account and commodity'))
    # correspondence: the postings emitted per account
    per = {}
    pool = {}
    for x in xs:
        for p in x.posts:
            if p.amt is not None and p.amt.sym:
                pool[p.amt.sym] = max(pool.get(p.amt.sym, 0), p.amt.dec)
            if p.assigned is not None and p.assigned.sym:
                pool[p.assigned.sym] = max(pool.get(p.assigned.sym, 0), p.assigned.dec)
    kinds = {}
    for i in sorted(rows):
        for r in rows[i]:
            if r['amt'] is None:
                continue
            base = (r['amt'][0] or '').split('~')[0]
            per.setdefault(r['acct'], []).append([r['amt'][1].numerator, r['amt'][1].denominator, r['amt'][2], base.encode()])
            root = getattr(xs, 'root', None)
            local = r['acct'][len(root) + 1:] if (root and r['acct'].startswith(root + ':')) else r['acct']
            kinds[r['acct']] = 'V' if local.startswith('V:') else 'B' if local.startswith('BV:') else 'R'
    impl = {}
    toks = tokenize_print(Q.decode('utf-8', 'replace').replace('Opening Balances', 'x0 Opening Balances', 1))
    if len(toks.get(0, [])) <= 2:
        res.count('equity-two-postings-skipped')
        return
    for l in toks.get(0, []):
        f = l.split('|')
        acct = bytes.fromhex(f[0]).decode()
        if acct == 'Equity:Opening Balances':
            continue
        impl.setdefault(acct, []).append(':'.join(f[3].split(':')[:-1]))
    eq_cases.append((lib.sx(['equity', 'e%d' % j, ['pool'] + [[k.encode(), v] for k, v in sorted(pool.items())]] +
                            [['acct', a.encode(), kinds[a]] + per[a] for a in sorted(per)]),
                     {a: ';'.join(sorted(v)) for a, v in impl.items()}, text))


# ------------------------------------------------------------------------------------ side streams (oracle only)
# Input classes outside Model/Print.v (directives, the `=` of a fixated cost, a lot first created by a computation, scaled
# time commodities, decimal comma, an account posted to as [A] and as (A)): small journals, implementation-only oracle
# with the relations of the property text (rows of J = rows of print J re-read, print twice = print once, bal of the
# re-read equity = bal J).  Every class has its own key prefix.
def side_journals(rng):
    A, B = rng.sample(['Assets:Broker:X', 'Assets:Bank', 'Assets:Cash', 'Expenses:Food', 'Income:Job'], 2)
    n = rng.randrange(2, 60)
    p = rng.randrange(101, 9999)
    q = p + rng.randrange(1, 500)
    d = '2020/%02d/%02d' % (rng.randrange(1, 7), rng.randrange(1, 29))
    d2 = '2020/%02d/%02d' % (rng.randrange(7, 13), rng.randrange(1, 29))
    money = lambda c: '$%d.%02d' % (c // 100, c % 100) if c >= 0 else '$-%d.%02d' % (-c // 100, -c % 100)
    out = []
    # the `=` of a fixated cost, per unit or total, the other leg elided or written
    tot = rng.random() < 0.4
    cost = ('@@ =%s' % money(p * n)) if tot else ('@ =%s' % money(p))
    other = '' if rng.random() < 0.5 else '    ' + money(-p * n)
    out.append(('fixated-cost', '%s x0\n    %s    %d AAA %s\n    %s%s\n' % (d, A, n, cost, B, other)))
    # apply tag: every transaction and posting inside carries the tag
    tag = rng.choice(['key: value', ':tag1:', 'key: applied text'])
    out.append(('apply-tag', 'apply tag %s\n%s x0\n    %s    %s\n    %s\nend apply tag\n\n%s x1\n    %s    %s\n    %s\n' %
                (tag, d, A, money(p), B, d2, A, money(q), B)))
    # a lot created by a plain `@` purchase, later named in full by a sale
    gain = (q - p) * n
    out.append(('written-lot-after-computed-lot',
                '%s x0\n    %s    %d AAA @ %s\n    %s\n\n%s x1\n    %s    -%d AAA {%s} [%s] @ %s\n    %s    %s\n    Income:Gains    %s\n' %
                (d, A, n, money(p), B, d2, A, n, money(p), d, money(q), B, money(q * n), money(-gain))))
    # a time commodity is stored in seconds: the per-unit cost becomes a quotient by 3600 (or 60)
    hrs = rng.choice(['1.5h', '0.5h', '2.25h', '7h', '90m', '45m', '1h'])
    out.append(('time-commodity-cost', '%s x0\n    %s    %s @ %s\n    %s\n' % (d, A, hrs, money(p), B)))
    # decimal comma: the first amount of the commodity has fewer decimals than a later one
    k = rng.randrange(1, 10)
    out.append(('decimal-comma', '%s x0\n    %s    %d,%d EUR\n    %s\n\n%s x1\n    %s    %d,%03d EUR\n    %s\n' %
                (d, A, k, rng.randrange(10), B, d2, A, rng.randrange(1, 10), rng.randrange(1, 1000), B)))
    # a commodity directive that fixes the format, and an amount written with more decimals
    out.append(('format-directive', 'commodity $\n    format $1,000.00\n\n%s x0\n    %s    $%d.%03d\n    %s\n' %
                (d, A, k, rng.randrange(1, 1000) | 1, B)))
    # one account posted to as [A] and as (A)
    first, second = rng.choice([('[%s]', '(%s)'), ('(%s)', '[%s]')])
    legs = {'[': '%s x%d\n    [V:A]    %s\n    [V:B]\n', '(': '%s x%d\n    (V:A)    %s\n'}
    out.append(('equity-account-balanced-and-unbalanced-virtual',
                legs[first[0]] % (d, 0, money(p)) + '\n' + legs[second[0]] % (d2, 1, money(q))))
    return out


def side_rows(out):
    """reg rows -> list of field tuples; amounts as (symbol, annotation text, exact value)"""
    def amt(r):
        m = re.fullmatch(r'A:([0-9a-f]*)(?:~([0-9a-f]*))?:(-?\d+)/(\d+):\d+:[01]', r)
        if not m:
            return r
        return (bytes.fromhex(m.group(1)).decode('utf-8', 'replace'),
                re.sub(r'\s+', ' ', bytes.fromhex(m.group(2) or '').decode('utf-8', 'replace')).strip(),
                F(int(m.group(3)), int(m.group(4))))
    rows = []
    for line in out.decode('utf-8', 'replace').split('\n'):
        f = line.split('|')
        if len(f) == 15:
            rows.append(dict(payee=f[0], acct=f[1], virtual=f[2], date=f[3], aux=f[4], cleared=f[5], pending=f[6], code=f[7],
                             note=f[8], amt=amt(f[9]), cost=amt(f[10]), tags=f[13], tagval=f[14]))
    return rows


def run_side(ctx, res, rng, n):
    for j in range(n):
        for cls, text in side_journals(rng):
            res.count('side:' + cls)
            res.evaluations += 1
            path = ctx.path('C06_side.dat')
            open(path, 'w').write(text)
            case = dict(journal=text)
            st, out, err = lib.run_ledger(['-f', path, 'reg', '--empty', '--no-rounding', '--lots', '--format', FMT] + NOW)
            if st != 0 or err.strip():
                res.count('side-not-accepted:' + cls)
                continue
            res.nontrivial.add(text)
            if cls.startswith('equity-'):
                s0, Q, e0 = lib.run_ledger(['-f', path, 'equity'] + NOW)
                if s0 != 0:
                    res.count('side-equity-refused:' + cls)      # equity declines (mixed real/virtual): nothing emitted, nothing to re-read
                    continue
                qpath = ctx.path('C06_side_Q.dat')
                open(qpath, 'wb').write(Q)
                s1, b1, e1 = lib.run_ledger(['-f', path, 'bal', '--flat', '--empty', '--format', BAL_FMT] + NOW)
                s2, b2, e2 = lib.run_ledger(['-f', qpath, 'bal', '--flat', '--empty', '--format', BAL_FMT] + NOW)
                case = dict(journal=text, printed=Q.decode('utf-8', 'replace'))
                if s2 != 0 or e2.strip():
                    res.violations.append(dict(key=cls + ':equity-reread-fails', desc='the equity transaction is not accepted: %s' % e2.decode('utf-8', 'replace')[-200:],
                                               case=case, observed='error', required='accepted'))
                    continue
                t1 = {k: v for k, v in parse_bal(b1).items() if k[0] != 'Equity:Opening Balances'}
                t2 = {k: v for k, v in parse_bal(b2).items() if k[0] != 'Equity:Opening Balances'}
                if t1 != t2:
                    diff = sorted(set(t1.items()) ^ set(t2.items()), key=str)[:6]
                    res.violations.append(dict(key=cls + ':equity-balance-differs', desc='balances after re-reading equity differ: %s' % diff,
                                               case=case, observed=str(diff), required='equal per account and commodity'))
                continue
            st1, P, err1 = lib.run_ledger(['-f', path, 'print'] + NOW)
            Ptext = P.decode('utf-8', 'replace')
            case = dict(journal=text, printed=Ptext)
            if st1 != 0 or err1.strip():
                res.violations.append(dict(key=cls + ':print-fails', desc='print fails: %s' % err1.decode('utf-8', 'replace')[-200:], case=case,
                                           observed='status %s' % st1, required='the journal text'))
                continue
            ppath = ctx.path('C06_side_P.dat')
            open(ppath, 'wb').write(P)
            st2, out2, err2 = lib.run_ledger(['-f', ppath, 'reg', '--empty', '--no-rounding', '--lots', '--format', FMT] + NOW)
            if st2 != 0 or err2.strip():
                res.violations.append(dict(key=cls + ':reread-fails', desc='the printed text is not accepted: %s' % err2.decode('utf-8', 'replace')[-300:],
                                           case=case, observed=err2.decode('utf-8', 'replace')[-300:], required='accepted'))
                continue
            r1, r2 = side_rows(out), side_rows(out2)
            if len(r1) != len(r2):
                res.violations.append(dict(key=cls + ':rows:count', desc='%d postings, re-read %d' % (len(r1), len(r2)), case=case,
                                           observed=len(r2), required=len(r1)))
                continue
            bad = sorted(set(fld for a, b in zip(r1, r2) for fld in a if a[fld] != b[fld]))
            for fld in bad:
                a, b = [(a, b) for a, b in zip(r1, r2) if a[fld] != b[fld]][0]
                res.violations.append(dict(key='%s:rows:%s' % (cls, fld), desc='%s %s: %s was %r, re-read %r' % (a['payee'], a['acct'], fld, a[fld], b[fld]),
                                           case=case, observed=str(b[fld]), required=str(a[fld])))
            # lot details (price, `=` fixation, date, tag) as `bal --lots` lists them: the hook shows no computed annotation
            l1 = lib.run_ledger(['-f', path, 'bal', '--flat', '--lots', '--no-total'] + NOW)[1].decode('utf-8', 'replace')
            l2 = lib.run_ledger(['-f', ppath, 'bal', '--flat', '--lots', '--no-total'] + NOW)[1].decode('utf-8', 'replace')
            if l1 != l2:
                res.violations.append(dict(key=cls + ':lot-details', desc='`bal --lots` differs after print and re-read', case=case,
                                           observed=l2[:600], required=l1[:600]))
            st3, P2, err3 = lib.run_ledger(['-f', ppath, 'print'] + NOW)
            if st3 != 0 or P2 != P:
                res.violations.append(dict(key=cls + ':print-not-idempotent', desc='print(print J) differs from print J', case=case,
                                           observed=P2.decode('utf-8', 'replace')[:1000], required=Ptext[:1000]))


def run(ctx, n_override=None):
    rng = ctx.rng
    res = lib.Result()
    res.rule = ('accepted journals of 3-10 transactions: two-posting shapes around the elision (real, [balanced], (virtual) pairs, '
                'different written precision, equal lots, a same-commodity pair with written costs on both legs, first/second elided in the source, costs, implied rate, zero amounts), exactly '
                'balanced multi-commodity transactions with @/@@/(@) costs and virtual postings, one elided amount, excess-precision per-unit '
                'costs at the half-unit boundary, lot sales with {price} [date] (tag), postings with both a lot price and a written cost (@ / @@ / (@) / (@@), equal to or different from lot price x quantity, sales and purchases), balance assignments/assertions, also on accounts whose running total carries a residue below the display precision (an elided leg of a per-unit cost with 3 or 4 decimals, followed by an assignment on that account), `0 X @ price`; in 30% of the journals a bucket directive (`A`, `bucket`, `account` + `default`; a third of them inside `apply account ROOT`) with single-posting transactions marked `*`/`!` on the header and/or the posting, real, [balanced] or (virtual), with or without a cost; '
                'account names of 30..45 characters placed around the account column of print (column-3 .. column+0, the longest at the column) with amounts of 9..14 and more characters, so that every gap 0..3 between name and amount occurs; decorated with states on transactions and postings (also a posting mark that differs from the mark of its transaction), codes, auxiliary dates, notes, tags, key: value metadata and unusual '
                'payee/account text; non-trivial = a transaction with at least one such feature in a journal whose printed text re-reads; '
                'distinct by rendered transaction text; plus the side-stream journals (one or two transactions of each of seven directive / lot / style classes) that ledger accepts')
    n = n_override or ctx.scale(130, 600)
    journals = []
    for j in range(n):
        got = accepted_journal(ctx, rng, j)
        if got is None:
            res.count('journal-discarded')
            continue
        journals.append((j,) + got)
    model = lib.run_model('C06', [journal_sx('j%d' % j, xs) for j, xs, _, _, _ in journals])
    bad = [l for l in model if l.startswith('!driver-error')]
    if bad:
        res.disagreements.append(dict(name='C06/driver', case=None, impl=None, model=bad[:3]))
    eq_cases = []
    layout_cases = []
    idem_cases = []
    for j, xs, text, path, out in journals:
        open(path, 'w').write(text)
        rows = run_one(ctx, res, j, xs, text, path, out, model, layout_cases, idem_cases)
        if rows is not None:
            run_equity(ctx, res, j, xs, text, path, rows, eq_cases)
    if layout_cases:
        lm = {}
        for l in lib.run_model('C06', [lib.sx(['layout', c[0]] + [[n, a, c_] for (n, a, c_) in c[1]]) for c in layout_cases]):
            p = l.split(' ')
            if len(p) >= 3 and p[1] == 'W':
                lm[p[0]] = [int(v) for v in p[3:]]
        for (lid, na, blanks, xt, ls) in layout_cases:
            res.traces += 1
            if lm.get(lid) != blanks:
                res.disagreements.append(dict(name='C06/print-layout', case=xt, printed=ls, impl=blanks, model=lm.get(lid)))
        for (text, impl_same, mod_same, pad_lines, detail) in idem_cases:
            padded = [(lid, k) for (lid, k) in pad_lines if lid in lm and lm[lid][k] != 0]
            if (mod_same and not padded) != impl_same:
                res.disagreements.append(dict(name='C06/idempotent', case=text, impl='print(print J) %s print J' % ('==' if impl_same else '!='),
                                              model=dict(decisions=detail, padded_lines=padded)))
    if eq_cases:
        em = lib.run_model('C06', [c[0] for c in eq_cases])
        got = {}
        for l in em:
            p = l.split(' ', 4)
            if len(p) >= 4 and p[1] == 'E':
                got.setdefault(p[0], {})[bytes.fromhex(p[2]).decode()] = p[4] if len(p) > 4 else ''
        for (sxp, impl, text) in eq_cases:
            eid = sxp.split(' ')[1]
            res.traces += 1
            mod = {a: v for a, v in got.get(eid, {}).items() if v != ''}
            if any(v == 'ORDER-DEPENDENT' for v in mod.values()):
                res.count('model:equity-order-dependent')
                continue
            if mod != impl:
                res.disagreements.append(dict(name='C06/equity-postings', case=text, impl=impl, model=mod))
    run_side(ctx, res, rng, n_override and 3 or ctx.scale(6, 40))
    return res


def search(ctx, broken):
    import random
    for s in range(3):
        ctx.rng = random.Random('C06-search-%d-%d' % (ctx.seed, s))
        r = run(ctx, n_override=150)
        if r.violations:
            return r.violations
    return []


def replay(ctx, obj):
    res = lib.Result()
    case = obj.get('case') or {}
    if isinstance(case, dict) and 'journal' in case:
        path = ctx.path('replay.dat')
        open(path, 'w').write(case['journal'])
        st, P, err = lib.run_ledger(['-f', path, 'print'] + NOW)
        print('print status', st)
        print(P.decode('utf-8', 'replace')[:3000])
        print(err.decode('utf-8', 'replace')[:1000])
        ppath = ctx.path('replay_P.dat')
        open(ppath, 'wb').write(P)
        st2, out2, err2 = lib.run_ledger(['-f', ppath, 'reg', '--empty', '--no-rounding', '--format', FMT] + NOW)
        print('re-read status', st2)
        print(err2.decode('utf-8', 'replace')[:1000])
        if st != 0 or st2 != 0:
            res.violations.append(dict(key='replay', desc='print or its re-read fails', case=case, observed=(st, st2), required='0, 0'))
        else:
            st1, out1, err1 = lib.run_ledger(['-f', path, 'reg', '--empty', '--no-rounding', '--format', FMT] + NOW)
            r1, r2 = parse_rows(out1), parse_rows(out2)
            sig = lambda rows: [[(r['acct'], r['virtual'], r['cleared'], r['pending'], show_kq(r['amt']), show_kq(r['cost'])) for r in rows[i]]
                                for i in sorted(rows)]
            # transactions with a balance assignment (`ACCT  = AMOUNT`, no amount of its own): their computed amounts need only
            # agree to the display precision of the printed text
            assigning = set()
            cur = None
            for l in case['journal'].split('\n'):
                if l and not l.startswith(' '):
                    m = re.search(r'\bx(\d+)', l)
                    cur = int(m.group(1)) if m else None
                elif cur is not None and re.match(r'\s+(?:[*!] )?\S(?:[^;]*?\S)?(?:\s{2,}|\t)=\s', l):
                    assigning.add(cur)

            def close(i, a, b):
                if a == b:
                    return True
                if i not in assigning or a['acct'] != b['acct'] or not a['amt'] or not b['amt'] or a['amt'][0] != b['amt'][0]:
                    return False
                tol = F(1, 2 * 10 ** b['amt'][2])
                return abs(a['amt'][1] - b['amt'][1]) <= tol and (a['cleared'], a['pending'], a['virtual']) == (b['cleared'], b['pending'], b['virtual'])
            same = sorted(r1) == sorted(r2) and all(len(r1[i]) == len(r2[i]) and all(
                close(i, a, b) or (a['acct'], a['virtual'], a['cleared'], a['pending'], show_kq(a['amt']), show_kq(a['cost'])) ==
                (b['acct'], b['virtual'], b['cleared'], b['pending'], show_kq(b['amt']), show_kq(b['cost'])) for a, b in zip(r1[i], r2[i])) for i in r1)
            if not same:
                diff = [(a, b) for a, b in zip(sum(sig(r1), []), sum(sig(r2), [])) if a != b][:4]
                print('rows differ:', diff)
                res.violations.append(dict(key='replay-rows', desc='the re-read rows differ from the original: %s' % diff, case=case,
                                           observed=str(diff), required='equal rows'))
            h1 = parse_prices(lib.run_ledger(['-f', path, 'prices'] + NOW)[1])
            h2 = parse_prices(lib.run_ledger(['-f', ppath, 'prices'] + NOW)[1])
            if h1 is not None and (h2 is None or not same_prices(h1, h2)):
                print('prices differ:', h1, h2)
                res.violations.append(dict(key='replay-prices', desc='the price history differs after print and re-read', case=case,
                                           observed=str(h2), required=str(h1)))

            def total_costs(t):
                out = []
                for ls in tokenize_print(re.sub(r'^(\d\S*) ', r'\1 ', t, flags=re.M)).values():
                    out += [l.split('|')[5] for l in ls if l.split('|')[5].startswith('t')]
                return sorted(':'.join(c.split(':')[:-1]) for c in out)
            w, g = total_costs(case['journal']), total_costs(P.decode('utf-8', 'replace'))
            if any(w.count(c) > g.count(c) for c in w):
                print('written total costs', w, 'printed', g)
                res.violations.append(dict(key='replay-cost', desc='a written total cost is not shown by print: written %s, printed %s' % (w, g),
                                           case=case, observed=str(g), required=str(w)))
            st3, P2, err3 = lib.run_ledger(['-f', ppath, 'print'] + NOW)
            if P2 != P and not differs_by_padding_only(P.decode('utf-8', 'replace'), P2.decode('utf-8', 'replace')):
                print('print(print J) != print J')
                res.violations.append(dict(key='replay-idempotent', desc='print(print J) differs from print J', case=case,
                                           observed=P2.decode('utf-8', 'replace')[:500], required=P.decode('utf-8', 'replace')[:500]))
    return res
