"""C10 - market valuation uses the most recent price not after the valuation date.
Correspondence: generated journals (1-30 `P` lines and posting costs over 2-5 commodities whose
priced pairs form a forest: an edge, a reversed edge, chains, stars; equal-moment and out-of-order
entries, times of day) observed through `bal -X T --now D`, `bal -V`, `reg -X T` / `reg -V`
(valuation at each posting's date), `prices` / `pricedb`, against the extracted Coq model
(Model/Prices.v).  Oracle: Fractions recomputation written from the property text (latest price on
or before D, reciprocal, product along the chain, unconverted when there is no price) plus the
metamorphic reading of its last sentence (deleting every `P` line dated after D changes nothing).
Several paths (stream `via`): price graphs with cycles observed through `bal -X T`, against the model's
find_price_via (the path whose stalest price is freshest: Dijkstra with distance_combine = max over the ages
of the pairs' latest prices); oracle: exhaustive over the simple paths with Fractions - the value shown must be
the rate of SOME least-stale path (exactly that one when it is unique)."""
import datetime, re
from concurrent.futures import ThreadPoolExecutor
from fractions import Fraction as F
import lib

META = dict(
    id='C10',
    level='proof',
    technique='Coq proof (price map / price graph model refined to "latest entry not after D, later insertion wins a tie", reciprocal, product along the unique path) + differential correspondence of the extracted model against ledger',
    level_text='Theorems in coq/Properties/Properties_C10.v state, for all price histories (any number of entries, any insertion order, any moments) and all valuation moments, that the model of commodity_history_impl_t selects per commodity pair exactly the latest entry not after D (a later insertion replacing an earlier one at the same moment, nothing when every entry is later), that entries dated after D never influence an edge or a conversion, that a reversed quote is used as its reciprocal and a chain as the product along the unique path, that where several paths exist the lookup returns the product along a simple path of the filtered graph whose weight (the age of its stalest price) no other simple path undercuts, a strictly lightest path being taken whatever the order in which the pairs were first quoted, and coincides with the unique-path lookup when the path is unique, that a converted amount is exactly price times quantity and that an amount without applicable price stays as it is; the memoising lookup equals the plain lookup for every interleaving of lookups and price recordings (so lookups made by expressions evaluated while the journal is read cannot change a report); that rests on the source fact, re-read from commodity.cc on every run (Gen/PriceMemo.v), that recording or removing a price clears the memo of every commodity. A price taken from a posting cost is dated by the date of its transaction whatever dates the posting carries; which date finalize hands to exchange() is re-read from xact.cc on every run (Gen/CostDate.v). With a default commodity declared, -V converts into it exactly as -X does (the dispatch of commodity_t::find_price on the defaulted target is re-read from commodity.cc, Gen/FindPriceDispatch.v). Under --percent a share is the quotient of two valuations made by the same rule; that both market() calls of the installed expression pass the valuation date and the -X commodity is re-read from report.cc (Gen/PercentExpr.v). The model is tied to the code by running generated journals through freshly built ledger (bal/reg -X/-V, prices, pricedb; exact num/den through the verif_rational hook) and the extracted model and comparing every row.',
    level_note='Trusted: Coq kernel; extraction + OCaml driver and the python harness for the correspondence; GMP modelled as Q. Where several price paths join two commodities the model takes a path whose stalest price is freshest (history.cc: Dijkstra with distance_combine = max of the price ages; re-read from the source, Gen/PathWeight.v); which of several EQUALLY stale paths the heap order of boost yields is not modelled: such rows are not compared with the model, only judged by the oracle (the rate of some least-stale path). The `oldest` bound of find_price is modelled and proved about but no report passes it. Fixated lot prices ({=..}), value expressions on commodities and price download (-Q) are outside the model; a default commodity (D directive) is modelled as the target of -V.',
    design_ref='DESIGN.md section 7 C10',
    assumptions=['the priced commodity pairs of a journal form a forest (the quantifier of the property: an edge, a reversed edge or a simple chain), except in the multi-path stream, where the claim is: a least-stale path is taken, and exactly the model\'s when no second path is equally stale',
                 'commodity symbols avoid the predefined time units s/m/h',
                 'no fixated lot prices, commodity value expressions or price download'],
)

EPOCH = datetime.date(1970, 1, 1)
BASE = (datetime.date(2020, 1, 1) - EPOCH).days
SYMS = ['AAA', 'BBB', 'CCC', 'DDD', 'EEE', '$', 'EUR', 'M1']
FMT_BAL = '%(account)|%(verif_rational(display_total))\\n'
FMT_REG = '%(verif_rational(display_amount))|%(verif_rational(display_total))\\n'
FMT_PRICES = '%(format_datetime(datetime, "%s"))|%(account)|%(verif_rational(amount))\\n'


def dstr(day):
    return (EPOCH + datetime.timedelta(days=day)).strftime('%Y/%m/%d')


def qtext(q, dec):
    """decimal text of a Fraction known to have at most `dec` decimals"""
    n = q * 10 ** dec
    assert n.denominator == 1
    n = n.numerator
    s = str(abs(n)).rjust(dec + 1, '0')
    if dec:
        s = s[:-dec] + '.' + s[-dec:]
    return ('-' if n < 0 else '') + s


def atext(q, dec, sym):
    t = qtext(q, dec)
    if sym == '$':
        return '$' + t
    if sym == 'M1':
        return t + ' "M1"'
    return t + ' ' + sym


def symtext(sym):
    return '"M1"' if sym == 'M1' else sym


def rq(rng, lo=1, hi=9999, decs=(0, 0, 1, 2, 2, 3, 4)):
    dec = rng.choice(decs)
    return F(rng.randint(lo, hi), 10 ** dec), dec


# ---- abstract journals ---------------------------------------------------------------------
class Journal:
    """elements in file order:
       ('P', when, src, q, dec, tgt)                          a price directive
       ('C', day, aq, adec, ac, total, cq, cdec, cc, virt, n)  a costed posting + balancing null posting
       ('I', day, xq, xdec, xc, yq, ydec, yc, n)               two commodities, no cost (implied)
       ('H', day, [(q, dec, c)], n)                           holdings, one account per commodity
       ('W', day, q, dec, c, n)                               a posting to W:w (register observations)
       ('D', sym)                                             `D 1000.00 SYM`: sym becomes the default commodity
       ('L', src, tgt, day[, form, n])                        a price look-up made while the journal is read:
                                                              form = check | assert | amount (a posting whose amount is
                                                              the expression market(..) * 0) | auto (an automated
                                                              transaction whose predicate calls market(): evaluated after
                                                              every later transaction)"""

    def dflt(self):
        """the default commodity once the journal has been read (the last D directive)"""
        ds = [e[1] for e in self.elems if e[0] == 'D']
        return ds[-1] if ds else None

    def __init__(self):
        self.pd = {}        # n of a C / I element -> (transaction aux day, posting day, posting aux day), None = not written
        self.elems = []
        self.comms = []
        self.shape = ''

    def xline(self, day, n):
        xa = self.pd.get(n, (None, None, None))[0]
        return dstr(day) + ('=' + dstr(xa) if xa is not None else '')

    def pnote(self, n):
        _, pp, pa = self.pd.get(n, (None, None, None))
        if pp is None and pa is None:
            return ''
        return '    ; [%s%s]' % (dstr(pp) if pp is not None else '', '=' + dstr(pa) if pa is not None else '')

    def dates_sx(self, day, n):
        xa, pp, pa = self.pd.get(n, (None, None, None))
        return [day] + [(x if x is not None else '-') for x in (xa, pp, pa)]

    def text(self, drop_p_after=None):
        out = []
        for e in self.elems:
            k = e[0]
            if k == 'P':
                _, when, src, q, dec, tgt = e
                if drop_p_after is not None and when > drop_p_after:
                    continue
                day, tod = divmod(when, 86400)
                ts = dstr(day)
                if e in self.explicit_time or tod:
                    ts += ' %02d:%02d:%02d' % (tod // 3600, tod // 60 % 60, tod % 60)
                out.append('P %s %s %s' % (ts, symtext(src), atext(q, dec, tgt)))
            elif k == 'C':
                _, day, aq, adec, ac, total, cq, cdec, cc, virt, n = e
                op = ('@@' if total else '@')
                if virt:
                    op = '(' + op + ')'
                out += ['%s c%d' % (self.xline(day, n), n),
                        '    X:%d    %s %s %s%s' % (n, atext(aq, adec, ac), op, atext(cq, cdec, cc), self.pnote(n)),
                        '    Y:%d' % n, '']
            elif k == 'I':
                _, day, xq, xdec, xc, yq, ydec, yc, n = e
                out += ['%s i%d' % (self.xline(day, n), n), '    X:%d    %s%s' % (n, atext(xq, xdec, xc), self.pnote(n)),
                        '    Y:%d    %s' % (n, atext(yq, ydec, yc)), '']
            elif k == 'H':
                _, day, hs, n = e
                out.append('%s h%d' % (dstr(day), n))
                for i, (q, dec, c) in enumerate(hs):
                    out.append('    H:%d    %s' % (i, atext(q, dec, c)))
                out += ['    E:h', '']
            elif k == 'W':
                _, day, q, dec, c, n = e
                out += ['%s w%d' % (dstr(day), n), '    W:w    %s' % atext(q, dec, c), '    E:w', '']
            elif k == 'D':
                out.append('D ' + atext(F(1000), 2, e[1]))
            elif k == 'L':
                src, tgt, day = e[1:4]
                form = e[4] if len(e) > 4 else 'check'
                mk = "market('%s', [%s], '%s')" % (src, dstr(day), tgt)
                if form == 'check':
                    out.append('check %s > 0' % mk)
                elif form == 'assert':
                    out.append('assert %s == %s' % (mk, mk))
                elif form == 'amount':
                    out += ['%s v%d' % (dstr(BASE - 10), e[5]), '    V:a%d    (%s * 0)' % (e[5], mk), '    V:b%d' % e[5], '']
                else:
                    out += ['= expr "(%s > 0) & (account =~ /^ZZnever/)"' % mk, '    (Auto)    1 QQQ', '']
        return '\n'.join(out) + '\n'

    def items_sx(self, lookups=False):
        its = []
        autos = []          # look-ups of automated transactions: repeated after every later transaction
        for e in self.elems:
            k = e[0]
            if lookups and (k in ('C', 'I', 'H', 'W') or (k == 'L' and len(e) > 4 and e[4] == 'amount')):
                self_autos = list(autos)
            else:
                self_autos = []
            if k == 'P':
                _, when, src, q, dec, tgt = e
                its.append(['P', when, src.encode(), q.numerator, q.denominator, tgt.encode()])
            elif k == 'C':
                _, day, aq, adec, ac, total, cq, cdec, cc, virt, n = e
                its.append(['C'] + self.dates_sx(day, n) + [aq.numerator, aq.denominator, ac.encode(), bool(total),
                            cq.numerator, cq.denominator, cc.encode(), bool(virt)])
            elif k == 'I':
                _, day, xq, xdec, xc, yq, ydec, yc, n = e
                its.append(['I'] + self.dates_sx(day, n) + [xq.numerator, xq.denominator, xc.encode(), yq.numerator, yq.denominator, yc.encode()])
            elif k == 'D':
                its.append(['D', e[1].encode()])
            elif k == 'L' and lookups:
                src, tgt, day = e[1:4]
                if len(e) > 4 and e[4] == 'auto':
                    autos.append(['L', src.encode(), tgt.encode(), day * 86400])
                else:
                    its.append(['L', src.encode(), tgt.encode(), day * 86400])
            if lookups:
                its += self_autos     # journal_t::add_xact: finalize (records the costs), then extend_xact
        return its

    def postings(self):
        """(account, day, q, commodity, lot commodity or None) in file order, as finalize leaves them"""
        ps = []
        for e in self.elems:
            k = e[0]
            if k == 'C':
                _, day, aq, adec, ac, total, cq, cdec, cc, virt, n = e
                cost = (cq if aq > 0 else -cq) if total else cq * aq
                ps.append(('X:%d' % n, day, aq, ac, cc))
                ps.append(('Y:%d' % n, day, -cost, cc, None))
            elif k == 'I':
                _, day, xq, xdec, xc, yq, ydec, yc, n = e
                ps.append(('X:%d' % n, day, xq, xc, yc))
                ps.append(('Y:%d' % n, day, yq, yc, None))
            elif k == 'H':
                _, day, hs, n = e
                for i, (q, dec, c) in enumerate(hs):
                    ps.append(('H:%d' % i, day, q, c, None))
                for q, dec, c in hs:
                    ps.append(('E:h', day, -q, c, None))
            elif k == 'L' and len(e) > 4 and e[4] == 'amount':
                ps.append(('V:a%d' % e[5], BASE - 10, F(0), e[2], None))
                ps.append(('V:b%d' % e[5], BASE - 10, F(0), e[2], None))
            elif k == 'W':
                _, day, q, dec, c, n = e
                ps.append(('W:w', day, q, c, None))
                ps.append(('E:w', day, -q, c, None))
        return ps

    def facts(self):
        """the price facts the property text speaks of, in file order: (when, src, q, tgt).
        `P` lines as written; a posting `a A @ p B` / `a A @@ c B` on day d says one A costs p B /
        |c / a| B at d; two commodities without cost: the first posting's commodity costs |y / x|.
        A virtual cost `(@)` is documented not to be recorded; a zero cost says nothing.
        A price taken from a posting cost is dated by the TRANSACTION's date, whatever dates the
        posting itself carries (`; [DATE]`, `; [DATE=AUX]`, `; [=AUX]`) and whatever auxiliary date
        the transaction has, with or without --aux-date."""
        fs = []
        for e in self.elems:
            k = e[0]
            if k == 'P':
                fs.append((e[1], e[2], e[3], e[5]))
            elif k == 'C':
                _, day, aq, adec, ac, total, cq, cdec, cc, virt, n = e
                pu = abs(cq / aq) if total else cq
                if not virt and pu != 0:
                    fs.append((day * 86400, ac, pu, cc))
            elif k == 'I':
                _, day, xq, xdec, xc, yq, ydec, yc, n = e
                fs.append((day * 86400, xc, abs(yq / xq), yc))
        return fs


def give_dates(rng, j, elems, days):
    """posting-level dates on costed postings (`; [DATE]`, `; [DATE=AUX]`, `; [=AUX]`), earlier and later
    than the transaction's date, and auxiliary dates on their transactions; returns the days used"""
    used = []

    def other(day):
        d = rng.choice(days + [day]) + rng.choice([-9, -3, -1, 1, 2, 6, 15])
        used.append(d)
        return d
    for e in elems:
        if e[0] not in ('C', 'I'):
            continue
        day, n = e[1], e[-1]
        xa = other(day) if rng.random() < 0.25 else None
        r = rng.random()
        pp = pa = None
        if r < 0.30:
            pp = other(day)
        elif r < 0.38:
            pp, pa = other(day), other(day)
        elif r < 0.45:
            pa = other(day)
        if xa is not None or pp is not None or pa is not None:
            j.pd[n] = (xa, pp, pa)
    return used


def gen_journal(rng, memo=False, multi=False):
    j = Journal()
    j.explicit_time = set()
    k = rng.choice([3, 3, 4, 5]) if multi else rng.choice([2, 2, 3, 3, 4, 5])
    comms = rng.sample(SYMS, k)
    j.comms = comms
    n = rng.randint(2, k)
    chain = rng.random() < 0.45
    edges = [(comms[i], comms[i - 1] if chain else comms[rng.randrange(i)]) for i in range(1, n)]
    orient = rng.choice(['fwd', 'rev', 'mixed', 'mixed'])
    nent = rng.choice([1, 1, 2, 3, 4, 6, 8, 12, 20, 30])
    ndays = rng.choice([1, 2, 3, 3, 4, 6])
    if multi:
        # comms[0] is quoted directly in two or more commodities and never quotes anything itself
        # (so that -V converts it); the older pair comes first in the file
        n = rng.randint(3, k)
        edges = [(comms[0], comms[i]) for i in range(1, n)]
        chain = False
        orient = 'fwd'
        nent = rng.choice([0, 0, 1, 2, 4, 8])
        ndays = rng.choice([2, 3, 4, 6])
    days = sorted(rng.sample(range(BASE + 3, BASE + 60), ndays))
    j.days = days
    j.shape = '%s-%d-edges' % ('chain' if chain else 'tree', len(edges)) if len(edges) > 1 else 'edge-' + orient
    if multi:
        j.shape = 'multiquote-%d' % len(edges)
    elems = []
    cn = 0
    for _ in range(nent):
        a, b = rng.choice(edges)
        if orient == 'rev' or (orient == 'mixed' and rng.random() < 0.5):
            a, b = b, a
        day = rng.choice(days)
        r = rng.random()
        if r < 0.68:
            tod = rng.choice([0, 0, 0, 0, 0, 0, 0, 1, 43200, 86399])
            q, dec = rq(rng)
            z = rng.random()
            if z < 0.03:
                q = F(0)
            elif z < 0.07:
                q = -q
            prev = [x for x in elems if x[0] == 'P' and x[2] == a and x[5] == b]
            if prev and rng.random() < 0.1:      # the same quote again (same day or not)
                q, dec = prev[-1][3], prev[-1][4]
                if rng.random() < 0.6:
                    day = prev[-1][1] // 86400
            e = ('P', day * 86400 + tod, a, q, dec, b)
            if tod == 0 and rng.random() < 0.2:
                j.explicit_time.add(e)
            elems.append(e)
        elif r < 0.92:
            cn += 1
            aq, adec = rq(rng, 1, 999, (0, 0, 1, 2))
            if rng.random() < 0.3:
                aq = -aq
            cq, cdec = rq(rng, 1, 9999, (0, 1, 2, 3))
            if rng.random() < 0.06:
                cq = F(0)
            total = rng.random() < 0.4
            virt = rng.random() < 0.15
            elems.append(('C', day, aq, adec, a, total, cq, cdec, b, virt, cn))
        else:
            cn += 1
            xq, xdec = rq(rng, 1, 999, (0, 0, 1, 2))
            yq, ydec = rq(rng, 1, 9999, (0, 1, 2))
            if rng.random() < 0.5:
                xq = -xq
            else:
                yq = -yq
            elems.append(('I', day, xq, xdec, a, yq, ydec, b, cn))
    # holdings: every commodity of the journal once
    hs = []
    for c in comms:
        q, dec = rq(rng, 1, 99999, (0, 0, 1, 2, 3))
        if rng.random() < 0.2:
            q = -q
        hs.append((q, dec, c))
    elems.append(('H', BASE - 20, hs, 0))
    # register observations: postings to W:w dated around the price days
    extra = give_dates(rng, j, elems, days)
    cand = sorted({d + o for d in days + extra for o in (-1, 0, 1)} | {days[0] - 7, days[-1] + 9})
    for i in range(rng.choice([3, 5, 8])):
        q, dec = rq(rng, 1, 999, (0, 1, 2))
        elems.append(('W', rng.choice(cand), q, dec, rng.choice(comms), i))
    rng.shuffle(elems)
    j.v_days = cand
    if multi:
        i_old = rng.randrange(len(days) - 1)
        i_new = rng.randrange(i_old + 1, len(days))
        q1, d1 = rq(rng)
        q2, d2 = rq(rng)
        first = [('P', days[i_old] * 86400, comms[0], q1, d1, comms[1]),
                 ('P', days[i_new] * 86400 + rng.choice([0, 0, 0, 43200]), comms[0], q2, d2, comms[2])]
        elems = first + elems
        j.v_days = [d for d in cand if d > days[i_new]] + ([days[i_new]] if first[1][1] % 86400 == 0 else [])
    if not memo and rng.random() < 0.3:
        # a default commodity: the target of -V
        for _ in range(rng.choice([1, 1, 1, 2])):
            elems.insert(rng.randrange(len(elems) + 1), ('D', rng.choice(comms[:n] if rng.random() < 0.85 else comms)))
    j.elems = elems
    j.cand = cand
    if memo:
        # parse-time lookups between the entries, aimed at the report's (commodity, target, date)
        j.memo_t = rng.choice(comms[:n])
        j.memo_day = rng.choice(cand[len(cand) // 2:])
        for _ in range(rng.choice([1, 1, 2, 3])):
            src = rng.choice([c for c in (comms[:n] if rng.random() < 0.8 else comms) if c != j.memo_t])
            pos = rng.randrange(len(j.elems) + 1) if rng.random() < 0.5 else rng.randrange(len(j.elems) // 2 + 1)
            j.elems.insert(pos, ('L', src, j.memo_t, j.memo_day))
    return j


def gen_interleaved(rng, idx):
    """Look-ups interleaved with price entries: a chain c0 - c1 - .. - cn (2-4 links), every link
    quoted early; then look-ups of a conversion that runs through intermediate commodities, made
    while the journal is read (check / assert / amount expression / automated transaction); then a
    LATER quote (a P line or a posting cost, dated on or before the looked-up moment) on one link -
    the first, a middle or the last one, by turns - possibly more look-ups and more quotes.  The
    report values at the looked-up moment and at others."""
    j = Journal()
    j.explicit_time = set()
    nl = [2, 3, 4, 2, 3, 4, 2, 3][idx % 8]
    comms = rng.sample(SYMS, nl + 1)
    j.comms = comms
    links = [(comms[i], comms[i + 1]) for i in range(nl)]
    early = sorted(rng.sample(range(BASE + 3, BASE + 20), rng.choice([1, 2, 3])))
    later = sorted(rng.sample(range(BASE + 25, BASE + 60), rng.choice([1, 2, 3])))
    dm = rng.choice([later[-1], later[-1], later[-1] + 5, later[-1] + 30])
    j.days = early + later
    j.shape = 'interleaved-%d-links' % nl

    def quote(link, day, cn):
        a, b = link
        if rng.random() < 0.5:
            a, b = b, a
        if rng.random() < 0.75:
            q, dec = rq(rng, 1, 9999)
            return ('P', day * 86400 + rng.choice([0, 0, 0, 0, 1, 43200]), a, q, dec, b)
        aq, adec = rq(rng, 1, 999, (0, 0, 1, 2))
        if rng.random() < 0.3:
            aq = -aq
        cq, cdec = rq(rng, 1, 9999, (0, 1, 2, 3))
        return ('C', day, aq, adec, a, rng.random() < 0.4, cq, cdec, b, False, cn)

    def lookup(n):
        # a conversion across at least two links whenever the chain allows it
        i = rng.randrange(0, nl - 1)
        k = rng.randrange(i + 2, nl + 1)
        src, tgt = (comms[i], comms[k]) if rng.random() < 0.5 else (comms[k], comms[i])
        if rng.random() < 0.6:
            src, tgt = (comms[0], comms[nl]) if rng.random() < 0.5 else (comms[nl], comms[0])
        return ('L', src, tgt, dm, rng.choice(['check', 'check', 'assert', 'amount', 'auto']), n)

    cn = 0
    elems = []
    incomplete = rng.random() < 0.2       # one link is not quoted yet when the first look-up is made
    missing = rng.randrange(nl) if incomplete else None
    first = []
    for li, link in enumerate(links):
        if li == missing:
            continue
        for _ in range(rng.choice([1, 1, 2])):
            cn += 1
            first.append(quote(link, rng.choice(early), cn))
    rng.shuffle(first)
    elems += first
    ln = 0
    which = [0, nl - 1, nl // 2, rng.randrange(nl)][(idx // 8) % 4]      # first / last / middle / any link
    rounds = rng.choice([1, 1, 2, 3])
    for r in range(rounds):
        for _ in range(rng.choice([1, 1, 2])):
            ln += 1
            elems.append(lookup(ln))
        li = missing if (r == 0 and incomplete) else (which if r == 0 else rng.randrange(nl))
        for _ in range(rng.choice([1, 1, 2])):
            cn += 1
            day = rng.choice(later + ([dm] if rng.random() < 0.2 else []) + ([dm + 2] if rng.random() < 0.1 else []))
            elems.append(quote(links[li], day if not (r == 0 and incomplete) else rng.choice(early + later), cn))
    if rng.random() < 0.3:
        ln += 1
        elems.append(lookup(ln))
    hs = []
    for c in comms:
        q, dec = rq(rng, 1, 99999, (0, 0, 1, 2, 3))
        hs.append((q, dec, c))
    pos = rng.randrange(len(elems) + 1)
    elems.insert(pos, ('H', BASE - 20, hs, 0))
    extra = give_dates(rng, j, elems, j.days)
    cand = sorted({d + o for d in j.days + extra for o in (-1, 0, 1)} | {dm, dm + 1, dm - 1})
    for i in range(rng.choice([1, 2, 3])):
        q, dec = rq(rng, 1, 999, (0, 1, 2))
        elems.insert(rng.randrange(len(elems) + 1), ('W', rng.choice(cand), q, dec, rng.choice(comms), i))
    j.elems = elems
    j.cand = cand
    j.v_days = cand
    j.memo_day = dm
    j.memo_ts = sorted({e[2] for e in elems if e[0] == 'L'})
    return j


def gen_multipath(rng, idx):
    """Price graphs in which two commodities are joined by SEVERAL paths: a triangle (a stale
    direct quote against a fresher two-hop path, and the other way round), a diamond, a diamond
    with a cross link, a square with a diagonal, the complete graph on four commodities, a
    triangle with a tail.  Every pair is quoted 1-3 times, in either direction, mostly on days no
    other quote uses (so that two paths rarely have the same stalest age), some with a time of
    day; about one journal in six deliberately re-uses days (ties between paths)."""
    j = Journal()
    j.explicit_time = set()
    shape = ['triangle', 'diamond', 'diamond-cross', 'square-diagonal', 'k4', 'triangle-tail', 'triangle', 'pentagon-chord'][idx % 8]
    n = {'triangle': 3, 'diamond': 4, 'diamond-cross': 4, 'square-diagonal': 4, 'k4': 4, 'triangle-tail': 4, 'pentagon-chord': 5}[shape]
    c = rng.sample(SYMS, n)
    pairs = {'triangle': [(0, 2), (0, 1), (1, 2)],
             'diamond': [(0, 1), (0, 2), (1, 3), (2, 3)],
             'diamond-cross': [(0, 1), (0, 2), (1, 3), (2, 3), (1, 2)],
             'square-diagonal': [(0, 1), (1, 2), (2, 3), (3, 0), (0, 2)],
             'k4': [(0, 1), (0, 2), (0, 3), (1, 2), (1, 3), (2, 3)],
             'triangle-tail': [(0, 1), (1, 2), (0, 2), (2, 3)],
             'pentagon-chord': [(0, 1), (1, 2), (2, 3), (3, 4), (4, 0), (1, 3)]}[shape]
    pairs = list(pairs)
    rng.shuffle(pairs)                      # the order in which the pairs are first quoted = edge creation order
    ties = idx % 6 == 5
    pool = list(range(BASE + 2, BASE + 80))
    rng.shuffle(pool)
    if ties:
        pool = [BASE + 10 * rng.randint(1, 4) for _ in range(80)]
    elems = []
    days = []
    for a, b in pairs:
        for _ in range(rng.choice([1, 1, 2, 3])):
            day = pool.pop()
            days.append(day)
            x, y = (c[a], c[b]) if rng.random() < 0.5 else (c[b], c[a])
            q, dec = rq(rng, 1, 9999)
            tod = rng.choice([0, 0, 0, 0, 0, 1, 3600, 43200, 86399])
            elems.append(('P', day * 86400 + tod, x, q, dec, y))
    first = [next(e for e in elems if {e[2], e[5]} == {c[a], c[b]}) for a, b in pairs]
    rest = [e for e in elems if e not in first]
    rng.shuffle(rest)
    # the first quote of each pair keeps its place in the creation order; the others go anywhere after it
    out = list(first)
    for e in rest:
        lo = out.index(next(f for f in first if {f[2], f[5]} == {e[2], e[5]})) + 1
        out.insert(rng.randint(lo, len(out)), e)
    if rng.random() < 0.3:                  # or in any order at all
        rng.shuffle(out)
    hs = []
    for x in c:
        q, dec = rq(rng, 1, 99999, (0, 0, 1, 2, 3))
        hs.append((q, dec, x))
    out.insert(rng.randrange(len(out) + 1), ('H', BASE - 20, hs, 0))
    j.elems = out
    j.comms = c
    j.days = sorted(set(days))
    j.shape = 'multipath-' + shape + ('-ties' if ties else '')
    j.cand = sorted({d + o for d in j.days for o in (-1, 0, 1, 2)} | {BASE + 100, BASE + 400})
    j.v_days = j.cand
    return j


# ---- the oracle: the property text in Fractions ----------------------------------------------
class Undetermined(Exception):
    pass


def o_rate(facts, a, b, D):
    """the price of one `a` in `b` as of moment D according to the property text, or None"""
    if a == b:
        return F(1)
    pairs = {}
    for n, (when, s, q, t) in enumerate(facts):
        if when <= D and s != t:
            key = frozenset((s, t))
            cur = pairs.get(key)
            if cur is None or cur[0] <= when:      # the later line wins at the same moment
                pairs[key] = (when, s, q, t)
    # the unique chain a .. b through pairs that have a price
    seen = {a: None}
    todo = [a]
    while todo:
        x = todo.pop()
        for key in pairs:
            if x in key:
                (y,) = key - {x}
                if y not in seen:
                    seen[y] = x
                    todo.append(y)
    if b not in seen:
        return None
    rate = F(1)
    y = b
    while seen[y] is not None:
        x = seen[y]
        when, s, q, t = pairs[frozenset((x, y))]
        if s == x:
            rate *= q                     # quoted the way we go
        else:
            if q == 0:
                raise Undetermined()      # the reciprocal of a zero quote
            rate /= q
        y = x
    return rate


def o_via(facts, a, b, D, count_only=False):
    """Several conversion paths: every pair offers its latest price not after D; a path is as stale
    as its stalest price; ledger must convert along a path that is least stale.  Exhaustive over
    the simple paths a .. b.  -> (number of simple paths, least staleness, {rate of every least
    stale path}, {rate of every simple path}) or None when no path exists"""
    pairs = {}
    for when, s_, q, t in facts:
        if when <= D and s_ != t:
            key = frozenset((s_, t))
            cur = pairs.get(key)
            if cur is None or cur[0] <= when:
                pairs[key] = (when, s_, q, t)
    found = []

    def walk(x, seen, stale, rate):
        if x == b:
            found.append((stale, rate))
            return
        for key, (when, s_, q, t) in pairs.items():
            if x in key:
                (y,) = key - {x}
                if y in seen:
                    continue
                if s_ != x and q == 0:
                    raise Undetermined()
                walk(y, seen | {y}, max(stale, D - when), rate * q if s_ == x else rate / q)
    walk(a, {a}, 0, F(1))
    if count_only:
        return len(found)
    if not found:
        return None
    least = min(st for st, r in found)
    return len(found), least, {r for st, r in found if st == least}, {r for st, r in found}


def o_convert(facts, holdings, tgt, D):
    """-X tgt: every amount multiplied by the rate, unconverted when there is none"""
    out = {}
    for q, c, lot in holdings:
        r = o_rate(facts, c, tgt, D)
        if r is None:
            out[c] = out.get(c, 0) + q
        else:
            out[tgt] = out.get(tgt, 0) + q * r
    return {c: q for c, q in out.items() if q != 0}


# ---- reading ledger's output -----------------------------------------------------------------
def parse_val(s):
    """verif_rational text -> {base symbol: Fraction} (annotations dropped, zero sums dropped)"""
    s = s.strip()
    d = {}
    if s.startswith('I:'):
        if int(s[2:]) != 0:
            d[''] = F(int(s[2:]))
        return d
    if s.startswith('V:') or s == '':
        return d
    body = s[2:] if s.startswith('B:') else s
    for part in (body.split(';') if body else []):
        m = re.fullmatch(r'A:([0-9a-f]*)(?:~[0-9a-f]*)?:(-?\d+)/(\d+):(\d+):([01])', part)
        if not m:
            raise ValueError('unreadable value ' + s[:200])
        sym = bytes.fromhex(m.group(1)).decode()
        d[sym] = d.get(sym, 0) + F(int(m.group(2)), int(m.group(3)))
    return {c: q for c, q in d.items() if q != 0}


def show(d):
    return ';'.join(sorted('%s:%d/%d' % (c.encode().hex(), q.numerator, q.denominator) for c, q in d.items()))


def unshow(s):
    d = {}
    for part in (s.split(';') if s else []):
        h, q = part.split(':')
        n, dd = q.split('/')
        d[bytes.fromhex(h).decode()] = F(int(n), int(dd))
    return d


def hold_sx(hs):
    return [[q.numerator, q.denominator, c.encode(), (lot.encode() if lot else b'')] for q, c, lot in hs]


class Query:
    def __init__(self, j, kind, **kw):
        self.j, self.kind = j, kind
        self.__dict__.update(kw)
        self.impl = None
        self.model = None


def accounts_of(j, variant=None):
    """account -> holdings as the report shows them: leaves (--flat), leaves and their parents
    (no --flat), top-level accounts only (--depth 1); TOTAL is the final line"""
    leaves, parents, total = {}, {}, []
    for a, day, q, c, lot in j.postings():
        leaves.setdefault(a, []).append((q, c, lot))
        parents.setdefault(a.split(':')[0], []).append((q, c, lot))
        total.append((q, c, lot))
    if variant == 'depth1':
        acc = dict(parents)
    elif variant == 'tree':
        acc = dict(leaves)
        acc.update(parents)
    else:
        acc = dict(leaves)
    acc['TOTAL'] = total
    return acc


def pct_rows(qr):
    """rows of a --percent report over the holdings H:i, i in qr.sub: (name, held, parent's held)"""
    hs = {a: h for a, h in accounts_of(qr.j).items() if a.startswith('H:') and int(a[2:]) in qr.sub}
    allh = [x for a in sorted(hs) for x in hs[a]]
    rows = [(a, hs[a], allh) for a in sorted(hs)]
    if not qr.flat:
        rows.append(('H', allh, allh))
    return rows


def run_query(qr):
    j = qr.j
    if qr.kind in ('bal', 'balmemo', 'balfut', 'via'):
        v = getattr(qr, 'variant', None)
        shape = {'tree': [], 'depth1': ['--depth', '1'], 'unround': ['--flat', '--unround']}.get(v, ['--flat'])
        args = ['-f', qr.path, 'bal'] + shape + ['--empty'] + (['-X', qr.tgt] if qr.tgt else ['-V']) + \
               ['--now', dstr(qr.day), '--format', FMT_BAL]
    elif qr.kind == 'pct':
        rx = ['^H:%d$' % i for i in sorted(qr.sub)]      # several patterns: any of them
        args = ['-f', qr.path, 'bal'] + rx + (['--flat'] if qr.flat else []) + ['--empty', '--percent'] + \
               (['-X', qr.tgt] if qr.tgt else ['-V']) + ['--now', dstr(qr.day), '--format', FMT_BAL]
    elif qr.kind == 'reg':
        args = ['-f', qr.path, 'reg', '^W:w', '--empty'] + (['-X', qr.tgt] if qr.tgt else ['-V']) + \
               ['--no-revalued', '--now', dstr(qr.day), '--format', FMT_REG]
    else:
        fmtopt = '--prices-format' if qr.kind == 'prices' else '--pricedb-format'
        args = ['-f', qr.path, qr.kind, '--empty', '--now', dstr(qr.day), fmtopt, FMT_PRICES]
    if getattr(qr, 'aux', False):
        args = args[:3] + ['--aux-date'] + args[3:]
    qr.args = args
    st, out, err = lib.run_ledger(args)
    qr.status = st
    qr.raw = out.decode('utf-8', 'replace')
    qr.err_full = err.decode('utf-8', 'replace')
    qr.err = qr.err_full[-300:]
    return qr


def canon_impl(qr):
    """-> canonical text comparable with the model's line"""
    if qr.status != 0:
        if qr.kind == 'pct' and 'Cannot convert a balance with multiple commodities to an amount' in qr.err_full:
            return 'E'
        return 'E:status=%s %s' % (qr.status, qr.err.strip().split('\n')[-1][:120] if qr.err.strip() else '')
    lines = [l for l in qr.raw.split('\n') if l]
    try:
        if qr.kind == 'pct':
            rows = {}
            for l in lines:
                a, v = l.split('|', 1)
                if not a:
                    continue
                d = parse_val(v)
                if any(c != '%' for c in d):
                    raise ValueError('not a percentage: ' + v[:100])
                q = d.get('%', F(0))
                rows[a] = '%d/%d' % (q.numerator, q.denominator)
            return rows
        if qr.kind in ('bal', 'balmemo', 'balfut', 'via'):
            rows = {}
            for l in lines:
                a, v = l.split('|', 1)
                rows[a or 'TOTAL'] = show(parse_val(v))
            return rows
        if qr.kind == 'reg':
            out = []
            for l in lines:
                a, t = l.split('|')
                out.append(show(parse_val(a)) + '|' + show(parse_val(t)))
            return out
        out = []
        for l in lines:
            w, acct, v = l.split('|')
            d = parse_val(v) or None
            if d is None:           # a zero price
                m = re.match(r'A:([0-9a-f]*)', v)
                d = {bytes.fromhex(m.group(1)).decode(): F(0)}
            (c, q), = d.items()
            out.append('%s %s %d/%d %s' % (w, acct.strip('"').encode().hex(), q.numerator, q.denominator, c.encode().hex()))
        return sorted(out)
    except ValueError as e:
        return 'E:%s' % e


def canon_model(qr, line):
    body = line.split(' ', 1)[1] if ' ' in line else ''
    if line.startswith('!'):
        return 'E:model ' + line
    parts = body.split(' / ') if body else []
    if qr.kind in ('bal', 'balmemo', 'balfut', 'pct', 'via'):
        rows = {}
        for p in parts:
            a, v = p.split('=', 1)
            rows[a] = v
        if qr.kind == 'via':
            # name=balance~tie: where two least-weight paths exist the model's choice between them is not ledger's
            qr.tie_rows = {a for a, v in rows.items() if v.endswith('~1')}
            rows = {a: v.rsplit('~', 1)[0] for a, v in rows.items()}
        if qr.kind == 'pct':
            # name=share~parent's value: a parent value that is not zero but may print as zero at
            # its commodity's display precision is tested by ledger with is_zero (display precision,
            # not modelled): such reports are left out of the comparison
            qr.small_parent = any(0 < abs(q) < 1 for v in rows.values() for q in unshow(v.split('~', 1)[1]).values())
            rows = {a: v.split('~', 1)[0] for a, v in rows.items()}
        if qr.kind == 'pct' and 'E' in rows.values():
            return 'E'          # the first unconvertible row aborts the whole report
        return rows
    if qr.kind == 'reg':
        return parts
    return sorted(parts)


def model_line(qr, n):
    j = qr.j
    t = qr.tgt.encode() if getattr(qr, 'tgt', None) else b''
    if qr.kind == 'pct':
        q = ['pct', t, qr.day * 86400] + [[a, hold_sx(h), hold_sx(ph)] for a, h, ph in pct_rows(qr)]
        return lib.sx(['case', 'q%d' % n, j.items_sx(), q])
    if qr.kind in ('bal', 'balfut'):
        acc = accounts_of(j, getattr(qr, 'variant', None))
        q = ['bal', t, qr.day * 86400] + [[a] + hold_sx(hs) for a, hs in sorted(acc.items())]
        return lib.sx(['case', 'q%d' % n, j.items_sx(), q])
    if qr.kind == 'via':
        acc = accounts_of(j)
        q = ['via', t, qr.day * 86400] + [[a] + hold_sx(hs) for a, hs in sorted(acc.items())]
        return lib.sx(['case', 'q%d' % n, j.items_sx(), q])
    if qr.kind == 'balmemo':
        acc = accounts_of(j)
        q = ['balmemo', t, qr.day * 86400] + [[a] + hold_sx(hs) for a, hs in sorted(acc.items())]
        return lib.sx(['case', 'q%d' % n, j.items_sx(lookups=True), q])
    if qr.kind == 'reg':
        ps = [[day] + hold_sx([(q, c, lot)])[0] for a, day, q, c, lot in j.postings() if a == 'W:w']
        return lib.sx(['case', 'q%d' % n, j.items_sx(), ['reg', t] + ps])
    posted = sorted({c for a, day, q, c, lot in j.postings()})
    return lib.sx(['case', 'q%d' % n, j.items_sx(), ['prices', qr.day * 86400] + [c.encode() for c in posted]])


# ---- judging one query with the oracle -------------------------------------------------------
def judge(qr, ci):
    """-> list of (key, desc, observed, required)"""
    j = qr.j
    facts = j.facts()
    bad = []
    if isinstance(ci, str):
        if qr.kind == 'pct' and ci == 'E':
            if not qr.tgt:
                return []
            try:
                if any(set(o_convert(facts, h, qr.tgt, qr.day * 86400)) - {qr.tgt} for a, h, ph in pct_rows(qr)):
                    return []      # an amount without a price in T: no share exists
            except Undetermined:
                return []
            return [('percent-X:error', 'every amount has a price in %s, yet --percent -X fails' % qr.tgt, qr.err, 'shares')]
        return [('%s:error' % qr.kind, 'ledger failed on a valid journal', ci, 'a report')]
    if qr.kind == 'via':
        D = qr.day * 86400
        for a, hs in accounts_of(j).items():
            want = {}
            exact = True
            got = unshow(ci.get(a, ''))
            for q, c, lot in hs:
                if c == qr.tgt:
                    want[c] = want.get(c, 0) + q
                    continue
                r = o_via(facts, c, qr.tgt, D)
                if r is None:
                    want[c] = want.get(c, 0) + q
                elif len(r[2]) == 1:
                    want[qr.tgt] = want.get(qr.tgt, 0) + q * next(iter(r[2]))
                else:
                    exact = False
                    if len(hs) == 1 and got not in [{qr.tgt: q * x} for x in r[2]]:
                        other = got in [{qr.tgt: q * x} for x in r[3]]
                        bad.append(('via-X:staler-path-taken' if other else 'via-X:wrong-value',
                                    'account %s (%s %s) under -X %s --now %s shows %s; the least stale conversion paths give one of %s'
                                    % (a, q, c, qr.tgt, dstr(qr.day), show_h(got), sorted(q * x for x in r[2])), show_h(got),
                                    ' or '.join(str(q * x) for x in sorted(r[2]))))
            if bad:
                break
            want = {c: q for c, q in want.items() if q != 0}
            if exact and got != want:
                what = 'wrong-value'
                if len(hs) == 1 and hs[0][1] != qr.tgt:
                    r = o_via(facts, hs[0][1], qr.tgt, D)
                    if r is None or got == {hs[0][1]: hs[0][0]}:
                        what = 'unconverted' if r is not None else 'converted-without-path'
                    elif got in [{qr.tgt: hs[0][0] * x} for x in r[3]]:
                        what = 'staler-path-taken'
                bad.append(('via-X:' + what,
                            'account %s under -X %s --now %s shows %s; converting every amount along the path whose stalest price is freshest (each pair at its latest price not after that date) gives %s'
                            % (a, qr.tgt, dstr(qr.day), show_h(got), show_h(want)), show_h(got), show_h(want)))
                break
        return bad
    if qr.kind in ('bal', 'balmemo') and qr.tgt:
        D = qr.day * 86400
        pre = 'memo:parse-time-lookup' if qr.kind == 'balmemo' else 'bal-X'
        for a, hs in accounts_of(j, getattr(qr, 'variant', None)).items():
            if getattr(qr, 'variant', None) == 'tree' and ':' not in a and a != 'TOTAL' and a not in ci:
                continue
            try:
                want = o_convert(facts, hs, qr.tgt, D)
            except Undetermined:
                continue
            got = unshow(ci.get(a, ''))
            if got != want:
                what = 'unconverted' if (len(hs) == 1 and got == {hs[0][1]: hs[0][0]}) else 'wrong-value'
                bad.append(('%s:%s' % (pre, what),
                            'account %s under -X %s --now %s shows %s, the latest prices not after that date give %s'
                            % (a, qr.tgt, dstr(qr.day), show_h(got), show_h(want)), show_h(got), show_h(want)))
                break
    elif qr.kind == 'pct' and qr.tgt:
        # --percent -X T: every line's share is (its value in T as of D) / (its parent's value in T
        # as of D), both by the property's rule
        D = qr.day * 86400
        try:
            vals = {}
            for a, h, ph in pct_rows(qr):
                vn, vd = o_convert(facts, h, qr.tgt, D), o_convert(facts, ph, qr.tgt, D)
                if set(vn) - {qr.tgt} or set(vd) - {qr.tgt} or not vd:
                    return []          # something has no price in T: the share is not determined
                vals[a] = 100 * vn.get(qr.tgt, F(0)) / vd[qr.tgt]
        except Undetermined:
            return []
        for a, want in sorted(vals.items()):
            got = ci.get(a)
            if got is None or F(got) != want:
                bad.append(('percent-X:wrong-share',
                            'account %s under --percent -X %s --now %s shows %s%%; its value over its parent\'s value, both in %s by the latest prices not after that date, is %s%%'
                            % (a, qr.tgt, dstr(qr.day), got, qr.tgt, want), str(got), str(want)))
                break
    elif qr.kind == 'bal' and getattr(qr, 'variant', None) in (None, 'unround'):
        # -V: the target is ledger's choice; whatever an amount was converted into, the factor must
        # be the latest price not after D (reciprocal / chain product included)
        D = qr.day * 86400
        for a, hs in accounts_of(j).items():
            if len(hs) != 1 or a == 'TOTAL':
                continue
            q, c, lot = hs[0]
            got = unshow(ci.get(a, ''))
            if len(got) != 1:
                continue
            (c2, q2), = got.items()
            if c2 == c:
                if q2 != q:
                    bad.append(('bal-V:quantity-changed', 'unconverted amount altered', show_h(got), show_h({c: q})))
                continue
            dflt = j.dflt()
            if dflt is not None and lot is None:
                # a default commodity is declared: it is the commodity -V converts into
                try:
                    r = o_rate(facts, c, dflt, D)
                except Undetermined:
                    continue
                if c2 != dflt or r is None or q2 != q * r:
                    bad.append(('bal-V:default-commodity-not-target',
                                'account %s (%s %s) under -V --now %s with default commodity %s shows %s; converted, it must be its value in %s by the latest prices not after that date (%s)'
                                % (a, q, c, dstr(qr.day), dflt, show_h(got), dflt, None if r is None else q * r),
                                show_h(got), 'unconverted' if r is None else show_h({dflt: q * r})))
                    break
                continue
            # the title of the property: among all the commodities `c` is quoted in directly, the
            # quote used is the most recent one not after D (an exact tie is left to ledger)
            newest = {}
            for when, s_, q_, t_ in facts:
                if when <= D and s_ != t_ and c in (s_, t_):
                    o = t_ if s_ == c else s_
                    newest[o] = max(newest.get(o, when), when)
            if lot is None and c2 in newest and any(w > newest[c2] for w in newest.values()):
                best = max(newest, key=lambda o: newest[o])
                bad.append(('bal-V:not-most-recent-quote',
                            'account %s (%s %s) under -V --now %s is valued in %s, whose latest quote not after that date is older than the quote in %s'
                            % (a, q, c, dstr(qr.day), c2, best), show_h(got), 'a value in %s' % best))
                break
            try:
                r = o_rate(facts, c, c2, D)
            except Undetermined:
                continue
            if r is None or q2 != q * r:
                bad.append(('bal-V:wrong-value', 'account %s (%s %s) under -V --now %s shows %s; the latest price of %s in %s gives %s'
                            % (a, q, c, dstr(qr.day), show_h(got), c, c2, None if r is None else q * r),
                            show_h(got), str(None if r is None else q * r)))
                break
    elif qr.kind == 'reg' and qr.tgt:
        ps = [(day, q, c, lot) for a, day, q, c, lot in j.postings() if a == 'W:w']
        if len(ci) != len(ps):
            return [('reg-X:rows', 'register rows missing', str(len(ci)), str(len(ps)))]
        seen = []
        for (day, q, c, lot), row in zip(ps, ci):
            seen.append((q, c, lot))
            try:
                wa = o_convert(facts, [(q, c, lot)], qr.tgt, day * 86400)
                wt = o_convert(facts, seen, qr.tgt, day * 86400)
            except Undetermined:
                continue
            ga, gt = row.split('|')
            if unshow(ga) != wa or unshow(gt) != wt:
                bad.append(('reg-X:wrong-value', 'posting of %s %s dated %s under -X %s shows %s (total %s); the latest prices not after its date give %s (total %s)'
                            % (q, c, dstr(day), qr.tgt, ga, gt, show(wa), show(wt)), row, show(wa) + '|' + show(wt)))
                break
    elif qr.kind in ('prices', 'pricedb'):
        # nothing dated after D may be listed, and every listed price is a recorded fact
        D = qr.day * 86400
        for row in ci:
            w, s, q, t = row.split(' ')
            n, d = q.split('/')
            fact = (int(w), bytes.fromhex(s).decode(), F(int(n), int(d)), bytes.fromhex(t).decode())
            if fact[0] > D:
                bad.append(('prices:future-listed', 'a price dated after --now is listed', row, 'only prices not after %s' % dstr(qr.day)))
                break
            if fact not in facts:
                bad.append(('prices:not-recorded', 'a listed price was never recorded', row, 'one of the recorded prices'))
                break
        else:
            # ... and every recorded price not after D is listed (every commodity of these journals
            # occurs in a posting), except one replaced by a later line for the same pair and moment
            last = {}
            for f in facts:
                if f[1] != f[3]:
                    last[(f[0], frozenset((f[1], f[3])))] = f
            # (the report shows one row per day and price: rows are compared by day)
            def day_rows(rows):
                out = set()
                for r in rows:
                    w, rest = r.split(' ', 1)
                    out.add('%d %s' % (int(w) // 86400, rest))
                return out
            want = ['%d %s %d/%d %s' % (f[0], f[1].encode().hex(), f[2].numerator, f[2].denominator, f[3].encode().hex())
                    for f in last.values() if f[0] <= D]
            if day_rows(ci) != day_rows(want):
                missing = sorted(day_rows(want) - day_rows(ci))
                extra = sorted(day_rows(ci) - day_rows(want))
                bad.append(('prices:missing' if missing else 'prices:superseded-listed',
                            'the %s listing as of %s does not show exactly the recorded prices not after that date' % (qr.kind, dstr(qr.day)),
                            str(extra or ci)[:400], str(missing or want)[:400]))
    return bad


def show_h(d):
    return ' + '.join('%s %s' % (q, c) for c, q in sorted(d.items())) or '0'


# ---- the run --------------------------------------------------------------------------------
def run(ctx, n_override=None):
    rng = ctx.rng
    res = lib.Result()
    res.rule = ('(plus: price graphs with SEVERAL paths between two commodities - triangle, diamond, diamond with cross link, square with diagonal, K4, '
                'triangle with tail, pentagon with chord; 1-3 quotes per pair in either direction, pairs first quoted in shuffled order, times of day, one journal in six with '
                'deliberately shared days - observed through bal -X at 4-6 dates; rows whose conversion meets two least-weight paths are judged by the oracle only; '
                'non-trivial there = a conversion made where at least two simple paths exist) '
                '(plus: journals whose check / assert / amount-expression / automated-transaction look-ups are interleaved '
                'with the quotes of a 2-4 link chain, a later quote on the first, a middle or the last link) '
                'about 30% of the journals declare a default commodity (D directive, the target of -V); also bal --percent -X/-V over subsets of the holdings (flat and not), bal -X/-V without --flat, with --depth 1, with --unround; '
                'journals of 1-30 recorded prices (P lines with and without time of day, per-unit / total / virtual / zero '
                'costs, implied two-commodity rates; costed postings with their own `[DATE]`, `[DATE=AUX]`, `[=AUX]` earlier and '
                'later than the transaction date, transactions with auxiliary dates, some reports under --aux-date) over 2-5 commodities whose priced pairs form a forest, entries on '
                '1-6 distinct days in shuffled order; each observed through bal -X/-V at dates before, on, between and after '
                'the price days, reg -X/-V, prices, pricedb; non-trivial = the report converts at least one amount through '
                'a recorded price or lists at least one price; distinct by journal text + command line')
    nj = n_override or ctx.scale(500, 3000)
    nmemo = max(10, nj // 8)
    queries = []
    journals = []
    ninter = max(48, nj // 4)
    nvia = max(96, nj // 3)
    for ji in range(nj + nmemo + ninter + nvia):
        memo = nj <= ji < nj + nmemo
        inter = nj + nmemo <= ji < nj + nmemo + ninter
        via = ji >= nj + nmemo + ninter
        if via:
            j = gen_multipath(rng, ji - nj - nmemo - ninter)
        elif inter:
            j = gen_interleaved(rng, ji - nj - nmemo)
        else:
            j = gen_journal(rng, memo, multi=(not memo and ji % 8 == 3))
        j.path = ctx.path('j%d.dat' % ji)
        with open(j.path, 'w') as f:
            f.write(j.text())
        journals.append(j)
        res.count('shape:' + j.shape)
        res.count('entries:%d' % len(j.facts()))
        cand = j.cand
        tree = j.comms
        if via:
            late = [d for d in cand if d >= j.days[len(j.days) // 2]]
            for d in sorted(set(rng.sample(late, min(len(late), 4)) + rng.sample(cand, 2))):
                queries.append(Query(j, 'via', path=j.path, tgt=rng.choice(tree), day=d))
            continue
        if inter:
            for t in j.memo_ts:
                queries.append(Query(j, 'balmemo', path=j.path, tgt=t, day=j.memo_day))
            queries.append(Query(j, 'balmemo', path=j.path, tgt=rng.choice(j.memo_ts), day=rng.choice(cand)))
            queries.append(Query(j, 'balmemo', path=j.path, tgt=rng.choice(j.comms), day=j.memo_day))
            continue
        if memo:
            queries.append(Query(j, 'balmemo', path=j.path, tgt=j.memo_t, day=j.memo_day))
            other = rng.choice(cand)
            queries.append(Query(j, 'balmemo', path=j.path, tgt=j.memo_t, day=other))
            continue
        days = set(j.days)
        picks = set(rng.sample(cand, min(len(cand), 5)))
        picks.add(rng.choice(j.days))
        for d in sorted(picks):
            queries.append(Query(j, 'bal', path=j.path, tgt=rng.choice(tree + ['ZZZ'] if rng.random() < 0.05 else tree), day=d,
                                 aux=rng.random() < 0.2, variant=rng.choice([None, None, None, None, 'tree', 'depth1', 'unround'])))
        for d in rng.sample(j.v_days, min(2, len(j.v_days))):
            queries.append(Query(j, 'bal', path=j.path, tgt=None, day=d, variant=rng.choice([None, None, None, 'tree', 'depth1', 'unround'])))
        # --percent: the valuation re-used by another expression (numerator and denominator)
        facts = j.facts()
        for _ in range(2):
            t = rng.choice(tree)
            d = rng.choice(cand[len(cand) // 3:])
            ok = []
            for i, c in enumerate(j.comms):
                try:
                    if o_rate(facts, c, t, d * 86400) is not None:
                        ok.append(i)
                except Undetermined:
                    pass
            if len(ok) < 2 or rng.random() < 0.12:
                ok = sorted(set(ok) | set(rng.sample(range(len(j.comms)), min(2, len(j.comms)))))
            elif len(ok) > 2 and rng.random() < 0.4:
                ok = sorted(rng.sample(ok, rng.randint(2, len(ok))))
            queries.append(Query(j, 'pct', path=j.path, tgt=(t if rng.random() < 0.85 else None), day=d, sub=ok,
                                 flat=rng.random() < 0.6))
        queries.append(Query(j, 'reg', path=j.path, tgt=rng.choice(tree), day=rng.choice(cand)))
        queries.append(Query(j, 'reg', path=j.path, tgt=None, day=rng.choice(cand)))
        for d in rng.sample(cand, 2):
            queries.append(Query(j, 'prices', path=j.path, day=d, aux=rng.random() < 0.2))
        queries.append(Query(j, 'pricedb', path=j.path, day=rng.choice(cand)))
        # last sentence of the property: drop every P line dated after D, nothing may change
        bq = rng.choice([q for q in queries[-16:] if q.j is j and q.kind == 'bal' and q.tgt and not getattr(q, 'variant', None) and not getattr(q, 'aux', False)] or [q for q in queries[-16:] if q.j is j and q.kind == 'bal' and q.tgt])
        fpath = ctx.path('j%d-nofuture.dat' % ji)
        with open(fpath, 'w') as f:
            f.write(j.text(drop_p_after=bq.day * 86400))
        queries.append(Query(j, 'balfut', path=fpath, tgt=bq.tgt, day=bq.day, twin=bq,
                             variant=getattr(bq, 'variant', None), aux=getattr(bq, 'aux', False)))
    with ThreadPoolExecutor(max_workers=min(8, lib.NCPU)) as ex:
        list(ex.map(run_query, queries))
    lines = [model_line(q, n) for n, q in enumerate(queries)]
    mout = lib.run_model('C10', lines)
    for n, (qr, ml) in enumerate(zip(queries, mout)):
        res.evaluations += 1
        res.traces += 1
        res.count('query:%s%s%s' % (qr.kind, '' if qr.kind not in ('bal', 'reg', 'balmemo', 'balfut', 'pct') else ('-X' if qr.tgt else '-V'),
                                    ':' + qr.variant if getattr(qr, 'variant', None) else ''))
        ci = canon_impl(qr)
        cm = canon_model(qr, ml)
        if getattr(qr, 'small_parent', False):
            res.count('pct:parent-value-below-1-not-compared')
            res.traces -= 1
            res.evaluations -= 1
            continue
        if getattr(qr, 'variant', None) == 'tree' and isinstance(ci, dict) and isinstance(cm, dict):
            # a parent that has a single child and no posting of its own is not printed
            cm = {k: v for k, v in cm.items() if k in ci or ':' in k or k == 'TOTAL'}
        case = dict(journal=qr.j.text() if qr.kind != 'balfut' else open(qr.path).read(), args=qr.args[2:], raw=qr.raw[:4000])
        if qr.kind == 'via' and isinstance(ci, dict) and isinstance(cm, dict):
            # rows whose conversion meets a tie between least-weight paths: the model's choice among
            # them is not ledger's (boost's heap order, not modelled); only the oracle judges them
            tied = getattr(qr, 'tie_rows', set())
            res.count('via:rows-tie-not-compared', len(tied))
            res.count('via:rows-compared', len(cm) - len(tied))
            ci_k = {k: v for k, v in ci.items() if k not in tied}
            cm_k = {k: v for k, v in cm.items() if k not in tied}
            facts = qr.j.facts()
            np_ = [o_via(facts, c, qr.tgt, qr.day * 86400) for c in qr.j.comms if c != qr.tgt]
            res.count('via:most-paths:%d' % max([r[0] for r in np_ if r] or [0]))
            if any(r and r[0] > 1 and len(r[3]) > 1 for r in np_):
                res.count('via:choice-changes-the-rate')
            if ci_k != cm_k:
                res.disagreements.append(dict(name='C10/via-X', case=case, impl=diffview(ci_k, cm_k)[0], model=diffview(ci_k, cm_k)[1]))
        elif ci != cm:
            res.disagreements.append(dict(name='C10/' + qr.kind + ('-X' if getattr(qr, 'tgt', None) else ''),
                                          case=case, impl=diffview(ci, cm)[0], model=diffview(ci, cm)[1]))
        # non-trivial: a conversion happened / a price is listed
        nontriv = False
        if qr.kind == 'pct':
            nontriv = isinstance(ci, dict) and len(ci) > 1
        elif isinstance(ci, dict):
            acc = accounts_of(qr.j, getattr(qr, 'variant', None))
            nontriv = any(ci.get(a, '') != show(o_plain(hs)) for a, hs in acc.items())
        elif isinstance(ci, list):
            nontriv = len(ci) > 0 and (qr.kind != 'reg' or any(r.split('|')[0] != show(o_plain([h])) for r, h in zip(ci, [(q, c, l) for a, d, q, c, l in qr.j.postings() if a == 'W:w'])))
        if qr.kind == 'via':        # several paths to choose from, and a conversion made
            nontriv = nontriv and any(o_via(qr.j.facts(), c, qr.tgt, qr.day * 86400, count_only=True) > 1 for c in qr.j.comms if c != qr.tgt)
        if nontriv:
            res.nontrivial.add(case['journal'] + ' '.join(case['args']))
            res.count('nontrivial:' + qr.kind)
        if len(res.samples) < 4 and nontriv and n % 7 == 0:
            res.samples.append(dict(journal=case['journal'][:1500], args=case['args'], impl=str(ci)[:600], model=str(cm)[:600]))
        for key, desc, obs, req in judge(qr, ci):
            res.violations.append(dict(key=key, desc=desc, case=case, observed=obs, required=req))
        if qr.kind == 'balfut':
            ct = canon_impl(qr.twin)
            if ci != ct:
                res.violations.append(dict(key='bal-X:future-price-matters',
                                           desc='deleting the P lines dated after %s changes what -X %s --now %s shows' % (dstr(qr.day), qr.tgt, dstr(qr.day)),
                                           case=dict(journal=qr.j.text(), args=qr.twin.args[2:], raw=qr.twin.raw[:4000]),
                                           observed=str(diffview(ct, ci)[0])[:500],
                                           required=str(diffview(ct, ci)[1])[:500]))
    return res


def o_plain(hs):
    out = {}
    for q, c, lot in hs:
        out[c] = out.get(c, 0) + q
    return {c: q for c, q in out.items() if q != 0}


def diffview(a, b):
    """the parts of two canonical results that differ"""
    if isinstance(a, dict) and isinstance(b, dict):
        ks = [k for k in sorted(set(a) | set(b)) if a.get(k) != b.get(k)]
        return {k: a.get(k) for k in ks}, {k: b.get(k) for k in ks}
    return str(a)[:800], str(b)[:800]


def search(ctx, broken):
    import random
    for s in range(3):
        ctx.rng = random.Random('C10-search-%d-%d' % (ctx.seed, s))
        r = run(ctx, n_override=400)
        known = lib.load_known_findings()
        v = [x for x in r.violations if not any(k['prop'] == 'C10' and re.fullmatch(k['match'], x['key']) for k in known)]
        if v:
            return v
    return []


def replay(ctx, obj):
    """re-run the stored journal and command; the violation stands while ledger still prints what
    was recorded as the failing output"""
    res = lib.Result()
    case = obj.get('case') or {}
    if 'journal' in case:
        path = ctx.path('replay.dat')
        open(path, 'w').write(case['journal'])
        st, out, err = lib.run_ledger(['-f', path] + list(case['args']))
        now = out.decode('utf-8', 'replace')
        print('replay: ledger -f %s %s' % (path, ' '.join(case['args'])))
        print(now)
        print('observed before: %s\nrequired: %s' % (obj.get('observed'), obj.get('required')))
        if 'raw' not in case or now[:4000] == case['raw']:
            res.violations.append(dict(key=obj.get('key', '?'), desc=obj.get('desc', '')))
    return res
