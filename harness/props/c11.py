"""C11 - no input makes ledger crash, corrupt memory or hang.   (PARTIAL claim)

Proved (coq/Properties/Properties_C11.v): the arithmetic of every copy into a fixed char buffer
against the site list regenerated from /repo/src, the nesting depth of the expression parser,
the zero tests of every division cell, the variant of the period-stepping loop.
Correspondence: the extracted model predicts an outcome CLASS (report / error exit; token read
completely / rejected / cut) for inputs placed on the model's boundaries - every buffer site at
capacity-2..capacity+2, MAX_LINE +/- 2, nesting depths, every zero-divisor cell, zero and huge
period quantities, backslash escapes through READ_INTO - and ledger must agree.
Oracle (the property text): no death by signal, no timeout (5 s), non-zero status whenever
`Error:` was printed, no sanitizer report (thorough tier: ASan+UBSan build of the same tree);
evaluated on the boundary inputs, on every truncated directive and on a structure-aware mutation
stream over the repository's test journals under rotating command verbs and options."""
import concurrent.futures, datetime, glob, os, random, re, shutil, signal, subprocess, sys, time
import lib
from props import c03
sys.path.insert(0, os.path.join(lib.ROOT, 'harness'))
from translators import c11_buffers

META = dict(
    id='C11',
    level='proof',
    technique='Coq proof about the modelled mechanisms (buffer-copy arithmetic over a site list regenerated from the source, parser nesting depth, division guards, period-stepping variant) + differential correspondence of the extracted model against ledger on boundary inputs + observation (signals, timeouts, exit status, ASan/UBSan in the thorough tier) on boundary, truncated and mutated inputs',
    level_text='PARTIAL. Proved in coq/Properties/Properties_C11.v: (a) for every fixed char buffer of src/*.cc,*.h and every statement that writes through it (list regenerated from the source on each run; unclassifiable statements fail closed) the bytes stored never exceed the capacity, for every input length; the READ_INTO macro is transcribed and its bound proved; (b) every expression the recursive-descent parser accepts nests at most src_parse_depth_limit deep and fetches at most src_expr_token_limit tokens (both constants and their guards are read from the source), while without those guards depth and length are unbounded; (c) every division cell of the amount/balance/value model tests the operand it divides by, so a zero divisor never yields a quotient; (d) the period-stepping loop of date_interval_t::stabilize has a strictly increasing variant for every quantity the period parser accepts, and never terminates for a zero quantity (which the source rejects); (e) the `%$N` prior-field reference of format strings, a walk along the element list of the template, never dereferences the null pointer with the tests the source has (its exact bounds are proved for the guarded and the unguarded loop); (f) the alias expansion loop of journal_t::expand_aliases terminates within one round per alias (each round records a table key not recorded before), given that each branch records the name it looked up, which the translator checks; the guards added by the repairs (query nesting/terms, roundto places, conversion cycles, missing expression argument, script loop, generated transactions without journal, find_account frame buffer) are recognised in the source and their presence is a theorem. The model is tied to the code by the regenerated tables and by comparing predicted outcome classes with freshly built ledger on boundary inputs (every site constant +/-2, 255/256/257 parentheses, 4095/4096/4097 tokens, 256/257 query terms, 65535/65536 places, `%$N` for N = 1..F against templates of 0..16 fields, ...). NOT covered: memory safety, absence of undefined behaviour and bounded stack use of the compiled program in general (heap objects, iterators, std::string, boost, the report/filter code, integer overflow) - for these the check only observes (signals, timeouts, exit status, sanitizer reports in the thorough tier) on boundary-directed, truncated and mutated inputs; defects found that way and not yet repaired are listed as findings (F46, F48 use after free; F51 conversion through an annotated commodity, F52 self-referring definitions, F53 unbounded format widths - patches prepared).',
    level_note='Trusted: Coq kernel; the translator harness/translators/c11_buffers.py (narrow patterns, fail closed) for the site list and guard constants; extraction + OCaml driver + python harness for the correspondence; the calendar is not modelled in (d) (month steps only by the lower bound 28 days per month); the assumption that `line` in textual.cc always points into parse_context_t::linebuf. Sanitizer observation exists only in the thorough tier.',
    design_ref='DESIGN.md section 7 C11, section 12',
    assumptions=['stack limit of the test environment is the default 8 MiB (the crash depth of findings F4/F38 depends on it)',
                 'textual.cc passes only pointers into parse_context_t::linebuf as `line`',
                 'month arithmetic moves a date forward by at least 28 days per month (boost gregorian)'],
)

TIMEOUT = 5
NOW = ['--now', '2021/06/15']
SIGNAMES = {s_.value: s_.name for s_ in signal.Signals}


# ------------------------------------------------------------------------------ running ledger

class Case:
    """one invocation of ledger.  construct names the site / input class for violation keys."""
    __slots__ = ('construct', 'journal', 'args', 'stdin', 'info', 'files', 'repl', 'result', 'jpath')

    def __init__(self, construct, journal, args, stdin=None, info=None, files=None, repl=False):
        self.construct, self.journal, self.args, self.stdin = construct, journal, list(args), stdin
        self.info, self.files, self.repl = info or {}, files or {}, repl
        self.result = None
        self.jpath = None

    def replay_obj(self):
        j = self.journal
        if isinstance(j, bytes):
            j = j.decode('latin-1')
        return dict(construct=self.construct, journal=j, journal_encoding='latin-1', args=self.args,
                    stdin=(self.stdin.decode('latin-1') if self.stdin else None),
                    files={k: v.decode('latin-1') if isinstance(v, bytes) else v for k, v in self.files.items()},
                    repl=self.repl)


def materialise(ctx, case, tag):
    """every case gets its own directory, so that a mutated `include *` sees only its own files"""
    d = os.path.join(ctx.workdir, 'cases', tag)
    os.makedirs(d, exist_ok=True)
    args = list(case.args)
    for name, content in case.files.items():
        p = os.path.join(d, name)
        with open(p, 'wb') as f:
            f.write(content if isinstance(content, bytes) else content.encode('latin-1'))
        args = [a.replace('@' + name + '@', p) for a in args]
    if case.journal is not None:
        p = os.path.join(d, 'j.dat')
        with open(p, 'wb') as f:
            f.write(case.journal if isinstance(case.journal, bytes) else case.journal.encode('latin-1'))
        case.jpath = p
        args = ['-f', p] + args
    return args, d


# The recursion limits of the source (MAX_DEPTH 4096 in op.h, 256 nested parentheses, 4096 tokens) are
# chosen for the release build on the default 8 MiB stack: measured with `ulimit -s`, the deepest
# accepted recursion (4096 levels of a self-referring `define`) needs 2.9 MiB, a 2048-term operator
# chain 1.7 MiB - a margin of 2.8 on 8 MiB.  The ASan+UBSan build (-O1, redzones around every local)
# has frames several times larger, so it is run with a stack enlarged by the same factor; otherwise a
# probe at the limit would report the sanitizer build's stack, not the program's behaviour.
ASAN_STACK_FACTOR = 8
DEFAULT_STACK_KB = 8192


def run_one(binary, args, stdin, env, cwd=None, factor=1):
    cmd = [binary, '--init-file', '/dev/null'] + args
    if env is not None and env.get('C11_STACK_KB'):
        cmd = ['/bin/sh', '-c', 'ulimit -s %s; exec "$0" "$@"' % env['C11_STACK_KB']] + cmd
    if env is not None and env.get('C11_VALGRIND'):
        cmd = [env['C11_VALGRIND'], '-q', '--error-exitcode=99'] + cmd
    try:
        p = subprocess.run(cmd, input=stdin if stdin is not None else b'', env=env, timeout=TIMEOUT * factor, cwd=cwd,
                           stdout=subprocess.PIPE, stderr=subprocess.PIPE)
    except subprocess.TimeoutExpired as e:
        return 'timeout', (e.stdout or b'')[:4000], (e.stderr or b'')[:4000]
    except OSError as e:
        return 'oserror', b'', str(e).encode()
    return p.returncode, p.stdout, p.stderr


def run_cases(ctx, cases, tag, binary=None, env=None, confirm=True):
    binary = binary or lib.ledger_bin()
    env = env or lib.ledger_env()
    jobs = []
    for i, c in enumerate(cases):
        a, d = materialise(ctx, c, '%s%d' % (tag, i))
        jobs.append((c, a, d))
    with concurrent.futures.ThreadPoolExecutor(max_workers=min(16, lib.NCPU)) as ex:
        futs = [ex.submit(run_one, binary, a, c.stdin, env, d) for c, a, d in jobs]
        for (c, a, d), f in zip(jobs, futs):
            c.result = f.result()
    # a timeout seen under full load is confirmed by running the case again with few
    # neighbours and twice the time
    again = [(c, a, d) for c, a, d in jobs if c.result[0] == 'timeout' and confirm]
    # (when the first dozen are all confirmed the rest are taken as they are: the run fails anyway)
    while again:
        part, again = again[:12], again[12:]
        with concurrent.futures.ThreadPoolExecutor(max_workers=4) as ex:
            futs = [ex.submit(run_one, binary, a, c.stdin, env, d, 2) for c, a, d in part]
            for (c, a, d), f in zip(part, futs):
                c.result = f.result()
        if all(c.result[0] == 'timeout' for c, a, d in part):
            break
    for c, a, d in jobs:
        shutil.rmtree(d, ignore_errors=True)
    return cases


def obs_class(case):
    st, out, err = case.result
    if st == 'timeout':
        return 'timeout'
    if isinstance(st, int) and st < 0:
        return 'signal:' + SIGNAMES.get(-st, str(-st))
    has_err = b'Error:' in err or b'Error:' in out and case.repl
    if st == 0 and not has_err:
        return 'ok'
    if st != 0 and (b'Error:' in err):
        return 'error'
    return 'other:%s' % st


SAN_RE = re.compile(rb'ERROR: (?:Address|Leak|Undefined\w*)Sanitizer: ([\w-]+)|([^\n:]+:\d+:\d+): runtime error: ([^\n]*)')


EXCLUDED = {}


def judge(case, sanitizer=False):
    """the property itself, on one run -> list of (key, desc, observed, required)"""
    st, out, err = case.result
    v = []
    c = case.construct
    if st == 'timeout':
        v.append(('timeout:%s' % c, 'ledger did not terminate within %d s' % TIMEOUT, 'timeout', 'prompt termination'))
    elif isinstance(st, int) and st < 0:
        nm = SIGNAMES.get(-st, 'SIG%d' % -st)
        v.append(('signal:%s:%s' % (nm, c), 'ledger died from %s' % nm, nm, 'a report or an error with non-zero status'))
    elif st == 0 and b'Error:' in err and not case.repl:
        v.append(('error-with-status-0:%s' % c, 'an error was printed but the exit status is 0',
                  err[:200].decode('latin-1'), 'non-zero exit status'))
    if sanitizer:
        m = SAN_RE.search(err)
        if m:
            kind = (m.group(1) or b'undefined-behaviour').decode()
            if m.group(3):
                where = os.path.basename(m.group(2).decode('latin-1')).split(':')[0]
                kind = 'ub-' + re.sub(r'[^a-z]+', '-', m.group(3).decode('latin-1').lower())[:40].strip('-') + '@' + where
            v = [x for x in v if not x[0].startswith('signal:SIGABRT')]
            if m.group(3) and m.group(3).startswith(b'signed integer overflow') and where == 'value.cc':
                # overflow of the C long inside an INTEGER value: undefined behaviour that DESIGN.md
                # section 12 excludes from every statement and generator (the release build wraps
                # around); it is counted, not reported
                EXCLUDED['integer-overflow-in-value'] = EXCLUDED.get('integer-overflow-in-value', 0) + 1
                return [x for x in v if not x[0].startswith('error-with-status-0')]
            v.append(('sanitizer:%s:%s' % (kind, c), 'sanitizer report: ' + err[m.start():m.start() + 300].decode('latin-1'),
                      kind, 'no sanitizer report'))
    return v


def add_violations(res, case, vs):
    for key, desc, observed, required in vs:
        res.violations.append(dict(key=key, desc=desc, case=case.replay_obj(), observed=observed, required=required))


# ------------------------------------------------------------------------------ (a) buffer sites

def xact(post):
    return '2020/01/01 p\n' + post + '\n  B\n'


def construct_table():
    """site selector -> how an input of n characters reaches the site.
    (name, (file, func, kind, delim or None), builder(n) -> (journal, args), expectation refiner)"""
    T = []

    def add(name, sel, build, lengths=None, expect=None, delimited=None):
        T.append(dict(name=name, sel=sel, build=build, lengths=lengths, expect=expect, delimited=delimited))

    add('quoted-symbol', ('commodity.cc', 'parse_symbol', 'ReadInto', '\'"\''),
        lambda n: (xact('  A  10 "%s"' % ('S' * n)), ['bal']))
    add('symbol', ('commodity.cc', 'parse_symbol', 'PtrLoopBounded', None),
        lambda n: (xact('  A  10 %s' % ('S' * n)), ['bal']))
    add('quantity', ('amount.cc', 'parse_quantity', 'ReadIntoSigned', None),
        lambda n: (xact('  A  %s X' % ('1' * n)), ['bal']))
    add('negative-quantity', ('amount.cc', 'parse_quantity', 'ReadIntoSigned', None),
        lambda n: (xact('  A  -%s X' % ('1' * (n - 1))), ['bal']) if n > 1 else None)
    add('lot-price', ('annotate.cc', 'parse', 'ReadInto', "'}'"),
        lambda n: (xact('  A  10 AAA {$1.%s}' % ('0' * (n - 3))), ['bal']) if n > 3 else None)
    add('lot-tag', ('annotate.cc', 'parse', 'ReadInto', "')'"),
        lambda n: (xact('  A  10 AAA (%s)' % ('t' * n)), ['bal']))
    add('lot-value-expr', ('annotate.cc', 'parse', 'ReadInto', "')'"),
        lambda n: (xact('  A  10 AAA ((1%s))' % (' ' * (n - 1))), ['bal']) if n > 0 else None)
    add('lot-date', ('annotate.cc', 'parse', 'ReadInto', "']'"),
        lambda n: (xact('  A  10 AAA [2020/01/02%s]' % ('0' * (n - 10))), ['bal']) if n >= 10 else None,
        expect=lambda o, n: 'error' if n > 10 else o)       # the copied text is then not a date
    add('note-date', ('item.cc', 'parse_tags', 'StrncpyBounded', None),
        lambda n: ('2020/01/01 p  ; [=2020/01/02%s]\n  A  $1\n  B\n' % ('0' * (n - 11)), ['bal']) if n >= 11 else None,
        expect=lambda o, n: ('error:too-long' if o == 'error' else ('error:invalid-date' if n > 11 else 'ok')))
    add('string-token', ('token.cc', 'next', 'ReadInto', 'delim'),
        lambda n: (None, ['eval', "'%s'" % ('a' * n)]))
    add('regex-token', ('token.cc', 'next', 'ReadInto', "'/'"),
        lambda n: (None, ['eval', '/%s/' % ('a' * n)]))
    add('date-token', ('token.cc', 'next', 'ReadInto', "']'"),
        lambda n: (None, ['eval', '[2020/01/02%s]' % ('0' * (n - 10))]) if n >= 10 else None,
        expect=lambda o, n: 'error' if n > 10 else o)
    add('ident-token', ('token.cc', 'parse_ident', 'ReadInto', None),
        lambda n: (None, ['eval', 'x' * n]), expect=lambda o, n: 'error')   # unknown identifier either way
    add('reserved-word', ('token.cc', 'parse_reserved_word', 'ReadInto', None),
        lambda n: (None, ['eval', ('false' + 'e' * 20)[:n] if n <= 25 else 'f' * n]), expect=lambda o, n: None,
        lengths=[1, 2, 3, 4, 5, 6, 7, 8])
    add('journal-line', ('context.h', 'textual.cc', 'Getline', None),
        lambda n: (';' + 'a' * (n - 1) + '\n2020/01/01 p\n  A  $1\n  B\n', ['bal']) if n >= 1 else None, delimited=True)
    add('csv-line', ('context.h', 'csv.cc', 'Getline', None),
        lambda n: ('2020/01/01 p\n  A  $1\n  B\n', ['convert', '@in.csv@', '--input-date-format', '%Y/%m/%d']) if n >= 30 else None,
        expect=lambda o, n: None)
    add('posting-line', ('textual.cc', 'parse_post', 'StrcpyLine', None),
        lambda n: ('2020/01/01 p\n  A  $1 ; %s\n  B\n' % ('n' * (n - 10)), ['bal']) if n > 10 else None)
    add('directive-line', ('textual.cc', 'general_directive', 'StrcpyLine', None),
        lambda n: ('account %s\n2020/01/01 p\n  A  $1\n  B\n' % ('D' * (n - 8)), ['bal']) if n > 8 else None)
    add('option-name', ('option.cc', 'find_option', 'CopyGuarded', None),
        lambda n: ('2020/01/01 p\n  A  $1\n  B\n', ['bal', '--' + 'o' * n]) if n > 0 else None,
        expect=lambda o, n: 'error' if o != 'Overrun' else None)
    add('xact-date', ('times.cc', 'parse_date_mask_routine', 'StrcpyGuarded', None),
        lambda n: ('2020/01/01%s p\n  A  $1\n  B\n' % ('0' * (n - 10)), ['bal']) if n >= 10 else None,
        expect=lambda o, n: 'error' if n > 10 else 'ok')
    add('price-datetime', ('times.cc', 'parse_datetime', 'StrcpyGuarded', None),
        lambda n: ('P 2020/01/01 00:00:0%s AAA $1\n' % ('0' * (n - 18)), ['prices']) if n >= 19 else None,
        expect=lambda o, n: None)
    add('repl-push-depth', ('global.cc', 'prompt_string', 'IndexLoopBounded', None),
        lambda n: ('2020/01/01 p\n  A  $1\n  B\n', []), expect=lambda o, n: 'ok',
        lengths=[1, 5, 28, 29, 30, 31, 32, 33, 40, 200])
    return T


def find_site(sites, sel):
    f, fn, kind, delim = sel
    for i, s in enumerate(sites):
        if s.file == f and kind == s.kind and (s.func == fn or s.func.startswith(fn)):
            if delim is not None and s.delim != delim:
                continue
            return i, s
    return None, None


def boundary_lengths(s):
    """input lengths around every constant of the site"""
    pts = set()
    for k in list(s.args) + [s.cap]:
        for d in (-2, -1, 0, 1, 2):
            if k + d >= 0:
                pts.add(k + d)
    pts |= {1, 7}
    if s.cap >= 128:
        pts |= {s.cap * 2 + 3}
    return sorted(pts)


def build_special(c, n):
    """constructs whose input is not a journal/argv pair only"""
    if c['name'] == 'csv-line':
        return dict(files={'in.csv': 'date,payee,amount\n2020/01/02,%s,$1\n' % ('p' * max(0, n - 15))})
    if c['name'] == 'repl-push-depth':
        return dict(stdin=('push\n' * n + 'bal\n').encode(), repl=True)
    return {}


def buffers(ctx, res, sites, binary=None, env=None, sanitizer=False, compare=True):
    table = construct_table()
    cases, lines = [], []
    for c in table:
        idx, s = find_site(sites, c['sel'])
        if s is None:
            res.disagreements.append(dict(name='C11/site-missing', case=c['name'], impl='construct exists',
                                          model='no site %r in the regenerated list' % (c['sel'],)))
            continue
        delimited = c['delimited'] if c['delimited'] is not None else (s.delim is not None)
        for n in (c['lengths'] or boundary_lengths(s)):
            if n > 120000:
                continue
            b = c['build'](n)
            if b is None:
                continue
            extra = build_special(c, n)
            case = Case(c['name'], b[0], b[1], info=dict(n=n, idx=idx, c=c, site=s, delimited=delimited), **extra)
            cases.append(case)
            lines.append(lib.sx(['site', 'b%d' % len(lines), idx, delimited, n]))
    run_cases(ctx, cases, 'buf', binary, env)
    model = lib.run_model('C11', lines) if compare else [''] * len(cases)
    for case, ml in zip(cases, model):
        res.evaluations += 1
        n, c, s = case.info['n'], case.info['c'], case.info['site']
        add_violations(res, case, judge(case, sanitizer))
        res.count('site:' + c['name'])
        if not compare:
            continue
        m = re.match(r'\S+ cap=(-?\d+) ok=(\d) extent=(-?\d+) outcome=(\w+) kind=(\w+)', ml)
        res.traces += 1
        if not m:
            res.disagreements.append(dict(name='C11/driver', case=c['name'], impl='', model=ml))
            continue
        cap, ok, extent, outcome, kind = int(m.group(1)), m.group(2) == '1', int(m.group(3)), m.group(4), m.group(5)
        # the table compiled into the model is the one the scanner produces now
        if cap != s.cap or kind != s.kind:
            res.disagreements.append(dict(name='C11/site-table', case=s.uid, impl='%s cap=%d' % (s.kind, s.cap),
                                          model='%s cap=%d' % (kind, cap)))
            continue
        res.count('outcome:' + outcome)
        if abs(n - s.cap) <= 2 or any(abs(n - a) <= 2 for a in s.args):
            res.nontrivial.add('%s:%d' % (c['name'], n))
        exp = {'Complete': 'ok', 'Rejected': 'error', 'Cut': None, 'Overrun': None}[outcome]
        if c['expect']:
            exp = c['expect'](exp if outcome in ('Complete', 'Rejected') else outcome, n)
        got = obs_class(case)
        if exp is None or got.startswith('signal') or got == 'timeout':
            continue                      # unspecified by the model / reported by the oracle
        if exp.startswith('error:'):
            st, out, err = case.result
            got2 = 'error:too-long' if b'too long' in err else ('error:invalid-date' if b'Invalid date' in err else got)
            got = got2 if got == 'error' else got
        if got != exp:
            res.disagreements.append(dict(name='C11/site-outcome:' + c['name'], case=dict(n=n, **case.replay_obj()),
                                          impl=got, model='%s (%s, extent %d of %d)' % (exp, outcome, extent, cap)))
        if len(res.samples) < 2 and outcome == 'Rejected':
            res.samples.append(dict(construct=c['name'], n=n, impl=got, model=ml))
    return cases


# ------------------------------------------------------------------------------ READ_INTO escapes

def escapes(ctx, res):
    rng = ctx.rng
    alphabet = 'abcxyz019 _-+*/().,:;!?#$%&@[]{}<>=|~^`"'
    cases, lines = [], []
    for i in range(ctx.scale(150, 1500)):
        n = rng.choice([0, 1, 2, 3, 5, 8, 20, 60])
        s = ''
        for _ in range(n):
            r = rng.random()
            if r < 0.25:
                s += '\\' + rng.choice('bfnrtvabc\\\'"x0 ')
            else:
                s += rng.choice(alphabet)
        if s.endswith('\\') and not s.endswith('\\\\'):
            s += 'q'
        cases.append(Case('string-token-escapes', None, ['eval', "'%s'" % s], info=dict(s=s)))
        lines.append(lib.sx(['readinto', 'e%d' % i, 4095, 39, s.encode('latin-1')]))
    run_cases(ctx, cases, 'esc')
    model = lib.run_model('C11', lines)
    for case, ml in zip(cases, model):
        res.evaluations += 1
        res.traces += 1
        res.count('escapes')
        add_violations(res, case, judge(case))
        st, out, err = case.result
        want = ml.split(' ', 1)[1]
        want_b = b'' if want == '-' else bytes.fromhex(want)
        if '\\' in case.info['s']:
            res.nontrivial.add('esc:' + case.info['s'])
        if st != 0:
            # the token ended early (an escaped quote is stored, not a delimiter): the model must
            # then have consumed the closing quote as well
            continue
        if out != want_b + b'\n':
            res.disagreements.append(dict(name='C11/read-into-escapes', case=case.info['s'], impl=out[:200].hex(), model=want))


# ------------------------------------------------------------------------------ (b) nesting

def nesting(ctx, res, binary=None, env=None, sanitizer=False):
    rng = ctx.rng
    texts = []
    for d in [0, 1, 2, 3, 5, 10, 31, 100, 254, 255, 256, 257, 258, 316, 1000]:
        texts.append(('(' * d + '1' + ')' * d, 'balanced'))
    for k in [1, 2, 100, 2046, 2047, 2048, 2049, 2050]:
        texts.append(('+'.join(['1'] * k), 'chain'))                 # 2k - 1 tokens, and the end of input
    texts.append(('+'.join(['1'] * 2048) + ' 1', 'chain-then-junk'))     # 4096 tokens: the last one is only looked at
    texts.append(('+'.join(['1'] * 2048) + ' 1 1', 'chain-then-junk'))
    for d in [1, 3, 10, 100]:
        texts.append(('(' * d + '1' + ')' * (d - 1), 'missing-close'))
        texts.append(('(' * d + '1+' + ')' * d, 'dangling-operator'))
        texts.append(('(' * d + '1' + ')' * (d + 3), 'extra-close'))
        texts.append(('(' * d + ')' * d, 'empty'))
        texts.append(('(' * d + ')' * d + '+1', 'empty-then-operator'))
        texts.append(('1+' + '(' * d + ')' * d, 'operator-then-empty'))
    for _ in range(ctx.scale(40, 400)):
        # random well-formed and slightly damaged expressions over ( ) 1 +
        def gen(depth):
            if depth == 0 or rng.random() < 0.3:
                return '1'
            k = rng.choice([1, 1, 2, 3])
            return '+'.join(('(' + gen(depth - 1) + ')') if rng.random() < 0.6 else '1' for _ in range(k))
        t = gen(rng.choice([1, 2, 3, 5, 8]))
        if rng.random() < 0.3 and len(t) > 2:
            i = rng.randrange(len(t))
            t = t[:i] + t[i + 1:]
        if ')(' in t or '1(' in t:
            continue                         # a call `f(x)`: rejected at evaluation, not modelled
        texts.append((t, 'random'))
    cases = [Case('expr-nesting', None, ['eval', t], info=dict(text=t, kind=k)) for t, k in texts]
    # deep inputs: the model accepts them at any depth; the binary's stack does not
    deep = []
    for d in [3162, 10000, 31623]:
        deep.append(Case('expr-nesting-depth', None, ['eval', '(' * d + '1' + ')' * d], info=dict(depth=d)))
    for k in [20000, 60000]:
        deep.append(Case('expr-operator-chain', None, ['eval', '+'.join(['1'] * k)], info=dict(terms=k)))
    for d in [2000, 20000]:
        deep.append(Case('query-nesting-depth', '2020/01/01 p\n  A  $1\n  B\n', ['reg'] + ['('] * d + ['A'] + [')'] * d, info=dict(depth=d)))
        deep.append(Case('query-term-count', '2020/01/01 p\n  A  $1\n  B\n', ['reg'] + ['a'] * (d * 3), info=dict(terms=d * 3)))
        deep.append(Case('format-nesting-depth', '2020/01/01 p\n  A  $1\n  B\n', ['reg', '--format', '%(' + '(' * d + '1' + ')' * d + ')\n'], info=dict(depth=d)))
        deep.append(Case('expr-negation-chain', None, ['eval', '-' * d + '1'], info=dict(depth=d)))
        deep.append(Case('expr-not-chain', None, ['eval', '!' * d + '1'], info=dict(depth=d)))
    run_cases(ctx, cases + deep, 'nest', binary, env)
    lines = [lib.sx(['depth', 'n%d' % i, c.info['text']]) for i, c in enumerate(cases)]
    model = lib.run_model('C11', lines)
    for case, ml in zip(cases, model):
        res.evaluations += 1
        res.traces += 1
        res.count('nesting:' + case.info['kind'])
        add_violations(res, case, judge(case, sanitizer))
        got = obs_class(case)
        exp = 'ok' if ml.split(' ')[1] == 'Ok' else 'error'
        if '(' in case.info['text'] or len(case.info['text']) > 4000:
            res.nontrivial.add('nest:' + case.info['text'][:80] + ':%d' % len(case.info['text']))
        if got.startswith('signal') or got == 'timeout':
            continue
        if got != exp:
            res.disagreements.append(dict(name='C11/expr-nesting', case=case.info['text'][:300], impl=got, model=ml))
        elif exp == 'ok' and case.info['kind'] in ('balanced', 'extra-close') and case.result[1].strip() != b'1':
            res.disagreements.append(dict(name='C11/expr-nesting-value', case=case.info['text'][:300],
                                          impl=case.result[1][:50].decode('latin-1'), model='1'))
    # beyond every limit of the source: an error message and a non-zero status, never a signal
    for case in deep:
        res.evaluations += 1
        res.traces += 1
        res.count('deep:' + case.construct)
        add_violations(res, case, judge(case, sanitizer))
        got = obs_class(case)
        if got not in ('error', 'timeout') and not got.startswith('signal'):
            res.disagreements.append(dict(name='C11/over-limit:' + case.construct, case=str(case.info), impl=got, model='error'))
    if len(res.samples) < 4:
        res.samples.append(dict(construct='expr-nesting', expr=cases[7].info['text'][:40] + '...', impl=obs_class(cases[7]), model=model[7]))


# ------------------------------------------------------------------------------ (c) division

def division(ctx, res):
    rng = ctx.rng
    journal, pool = c03.make_journal(ctx, rng, 'c11div.dat')
    L = c03.Lit
    usd, eur = ('$', 'pre'), ('EUR', 'suf')
    lit = lambda d, dec, sym, br=False: ('lit', L(d, dec, sym, braced=br))
    bal2 = ('bin', '+', lit('100', 2, usd), lit('3', 0, eur))
    numerators = {
        'INTEGER': ('int', 7), 'INTEGER0': ('int', 0), 'AMOUNT': lit('5', 0, None), 'AMOUNT$': lit('500', 2, usd),
        'AMOUNT0': lit('0', 0, None), 'BALANCE': bal2,
        'BALANCE-zeroed': ('bin', '-', bal2, bal2),
    }
    zero_divs = {
        'INTEGER0': ('int', 0), 'AMOUNT0': lit('0', 0, None), 'AMOUNT$0': lit('000', 2, usd),
        'AMOUNT0-braced': lit('0', 2, eur, True), 'AMOUNT-diff': ('bin', '-', lit('500', 2, usd), lit('500', 2, usd)),
        'INTEGER-diff': ('bin', '-', ('int', 3), ('int', 3)), 'BALANCE-diff': ('bin', '-', bal2, bal2),
        'AMOUNT-tiny-product': ('bin', '*', lit('0', 0, None), lit('1', 2, usd)),
    }
    nonzero_divs = {'INTEGER': ('int', 3), 'AMOUNT': lit('25', 1, None), 'AMOUNT$': lit('200', 2, usd), 'BALANCE': bal2,
                    'AMOUNT-tiny': ('bin', '/', lit('1', 2, usd), ('int', 300))}
    trees, tags = [], []
    for nn, nt in numerators.items():
        for dn, dt in list(zero_divs.items()) + list(nonzero_divs.items()):
            trees.append(('bin', '/', nt, dt))
            tags.append((nn, dn, dn in zero_divs))
    for _ in range(ctx.scale(60, 600)):
        a = c03.gen_tree(rng, rng.choice([1, 2, 3]), c03.SYMS[:2], False)
        z = rng.choice(list(zero_divs.values()))
        trees.append(('bin', '/', a, z))
        tags.append(('random', 'zero', True))
    cmds = ["eval 'verif_rational(%s)'" % c03.render(t) for t in trees]
    impl = [c03.canon_impl(b) for b in lib.run_repl(journal, cmds)]
    base = dict(pool)
    p = dict(base)
    lines = []
    for i, t in enumerate(trees):
        c03.learn(p, t)
        lines.append(lib.sx(['div', 'd%d' % i, c03.pool_sx(p), c03.to_sx(t)]))
        if impl[i].startswith('E:CRASH'):
            p = dict(base)
    model = [l.split(' ', 1)[1] for l in lib.run_model('C11', lines)]
    for t, (nn, dn, zero), ri, rm in zip(trees, tags, impl, model):
        res.evaluations += 1
        res.traces += 1
        res.count('division:%s' % ('zero-divisor' if zero else 'nonzero-divisor'))
        txt = c03.render(t)
        if zero:
            res.nontrivial.add('div:' + txt)
        if rm.startswith('ORDER-DEPENDENT'):
            continue
        if c03.kcanon(ri) != c03.kcanon(rm):
            res.disagreements.append(dict(name='C11/division-cell', case=txt, impl=ri, model=rm))
        if ri.startswith('E:CRASH'):
            m = re.search(r'status=(-?\d+)', ri)
            st = int(m.group(1)) if m else 0
            nm = SIGNAMES.get(-st, 'status%d' % st)
            res.violations.append(dict(key='signal:%s:division:%s/%s' % (nm, nn, dn), desc='%s kills ledger (%s)' % (txt, ri[:60]),
                                       case=dict(construct='division', repl=True, journal=open(journal).read(), args=[],
                                                 stdin="eval '%s'\n" % txt, files={}),
                                       observed=ri[:80], required='an error message'))
    if len(res.samples) < 5:
        res.samples.append(dict(construct='division', expr=c03.render(trees[0]), impl=impl[0], model=model[0]))


# ------------------------------------------------------------------------------ (d) periods

def periods(ctx, res, binary=None, env=None, sanitizer=False):
    rng = ctx.rng
    cases, lines = [], []
    fmt = ['--format', '%(format_date(date, "%Y/%m/%d"))\n']
    base = datetime.date(2020, 1, 1)
    quantities = [0, 1, 2, 3, 5, 7, 30, 365, 65534, 65535, 65536, 70000, 99999999999]
    for unit in ['days', 'weeks', 'months', 'quarters', 'years']:
        for q in quantities + [rng.randrange(1, 400) for _ in range(ctx.scale(4, 40))]:
            start = base + datetime.timedelta(days=rng.randrange(0, 300))
            date = start + datetime.timedelta(days=rng.choice([0, 1, 6, 7, 29, 30, 31, 364, 365, 366, rng.randrange(0, 3000)]))
            j = '%s p\n  A  $1\n  B\n' % date.strftime('%Y/%m/%d')
            pe = 'every %d %s from %s' % (q, unit, start.strftime('%Y/%m/%d'))
            cases.append(Case('period-quantity', j, ['reg', 'A', '--period', pe] + fmt + NOW,
                              info=dict(unit=unit, q=q, start=start, date=date, pe=pe)))
            lines.append(lib.sx(['period', 'p%d' % len(lines), unit, q, start.toordinal(), date.toordinal()]))
    # shapes without `every N`
    for pe in ['every 0 days', 'every 0 weeks from 2020/01/01', 'every 0 months', 'every 0 years', 'every 0 quarters',
               'every day', 'every week', 'every 65535 days', 'daily', 'every', 'every 3', 'every -1 days', 'every 1.5 days',
               'every 00000000000000000000 days', 'every 1 days from 1400/01/01', 'every 1 days until 9999/12/31',
               'from', 'since 2020/13/01', 'in 99999', 'every 2 weeks from 0000/00/00']:
        cases.append(Case('period-expression', '2020/03/17 p\n  A  $1\n  B\n', ['reg', '--period', pe] + fmt + NOW, info=dict(pe=pe)))
    run_cases(ctx, cases, 'per', binary, env)
    model = lib.run_model('C11', lines)
    for i, case in enumerate(cases):
        res.evaluations += 1
        add_violations(res, case, judge(case, sanitizer))
        res.count('period:' + case.construct)
        if i >= len(model):
            continue
        res.traces += 1
        ml = model[i].split(' ', 1)[1]
        info = case.info
        got = obs_class(case)
        if got.startswith('signal') or got == 'timeout':
            continue
        if info['q'] in (0, 1, 65535, 65536):
            res.nontrivial.add('period:%s:%d' % (info['unit'], info['q']))
        if ml.startswith('Err'):
            if got != 'error':
                res.disagreements.append(dict(name='C11/period-quantity', case=info['pe'], impl=got, model=ml))
        elif info['unit'] == 'days':
            res.nontrivial.add('period:' + info['pe'] + str(info['date']))
            want = datetime.date.fromordinal(int(ml.split(' ')[1])).strftime('%Y/%m/%d')
            have = case.result[1].decode('latin-1').strip()
            if got != 'ok' or have != want:
                res.disagreements.append(dict(name='C11/period-start', case='%s, posting on %s' % (info['pe'], info['date']),
                                              impl='%s %s' % (got, have), model=want))
        # months/quarters/years: the calendar is not modelled; an accepted quantity must give a
        # report or a date-range error, which the oracle has already checked
    if len(res.samples) < 6:
        res.samples.append(dict(construct='period', period=cases[3].info['pe'], impl=cases[3].result[1].decode('latin-1').strip(), model=model[3]))


# ------------------------------------------------------------------------------ truncated directives

TRUNCATED = ['i', 'i ', 'i 2020/01/01', 'i 2020/01/01 00:00:00', 'o', 'O', 'I', 'b', 'h', 'D', 'D ', 'A', 'A ', 'C', 'C 1', 'C 1 a =',
             'P', 'P ', 'P 2020/01/01', 'P 2020/01/01 "X', 'P 2020/01/01 X', 'P 2020/01/01 00:00:00', 'N', 'N ', 'Y', 'Y ', 'Y x',
             '-', '--', '---', '- ', '--f', '--file', '-f', '=', '= ', '= /', '= /a', '= (', '~', '~ ', '~ every', '~ every 0 days',
             '!', '!i', '@', '@include', '!include', 'include', 'include ', 'apply', 'apply ', 'apply account', 'apply tag', 'apply fixed',
             'apply year', 'end', 'end ', 'end apply', 'end apply account', 'alias', 'alias ', 'alias a', 'alias a=', 'alias =b',
             'account', 'account ', 'account A\n  alias', 'account A\n  default x\n  assert', 'account A\n  check', 'account A\n  eval',
             'commodity', 'commodity ', 'commodity $\n  format', 'commodity $\n  alias', 'commodity "', 'payee', 'payee \n  alias',
             'tag', 'tag \n  check', 'tag x\n  assert', 'bucket', 'bucket ', 'year', 'year ', 'year x', 'define', 'define ', 'define a', 'define a=',
             'def', 'assert', 'assert ', 'assert (', 'check', 'check 1/0', 'expr', 'expr ', 'expr (', 'eval', 'eval 1/0', 'comment', 'test',
             'value', 'value ', 'python', 'python\n  x', 'import', 'import os', '2020', '2020/', '2020/01', '2020/01/01', '2020/01/01 ',
             '2020/01/01=', '2020/01/01=2020', '2020/01/01 *', '2020/01/01 (', '2020/01/01 (c', '2020/01/01 p\n ', '2020/01/01 p\n  A',
             '2020/01/01 p\n  A  ', '2020/01/01 p\n  A  $', '2020/01/01 p\n  A  $1 @', '2020/01/01 p\n  A  $1 @@', '2020/01/01 p\n  A  1 X {',
             '2020/01/01 p\n  A  1 X {{', '2020/01/01 p\n  A  1 X [', '2020/01/01 p\n  A  1 X (', '2020/01/01 p\n  A  1 X ((',
             '2020/01/01 p\n  A  1 X (@', '2020/01/01 p\n  A  $1 =', '2020/01/01 p\n  A  = ', '2020/01/01 p\n  A  $1 = $', '2020/01/01 p\n  (A',
             '2020/01/01 p\n  [A', '2020/01/01 p\n  A  (', '2020/01/01 p\n  A  (1', '2020/01/01 p\n  A  (1/0)', '2020/01/01 p\n  A  "',
             '2020/01/01 p\n  A  $1 ;', '2020/01/01 p\n  A  $1 ; :', '2020/01/01 p\n  A  $1 ; a:', '2020/01/01 p\n  A  $1 ; a::', '2020/01/01 p\n  A  $1 ; [',
             '2020/01/01 p\n  A  $1 ; [=', '2020/01/01 p\n  A  $1 ; [2', '2020/01/01 p\n  A  $1 ; [=]', '2020/01/01 p\n  ; :a:', '2020/01/01 p\n  ;',
             '\xef\xbb\xbf', '\xef\xbb', '\x00', '\x00\x00\x00', '\r', '\r\n', ';', '#', '%', '|', '*', ' ', '\t', '  A  $1', '0', '1', '9999/99/99 x',
             '0000/00/00 x', '2020/02/30 x', '1/1 x', '2020.01.01 x', '2020-01-01 x', '20200101 x']
VERBS_SMALL = [['bal'], ['reg'], ['print'], ['stats']]
# directives that end right after a quoted symbol or another token their reader steps over
STALE_EXTRA = ['P 2020/01/01 "AAA"', 'P 2020/01/01 00:00:00 "AAA"', 'N "AAA"', 'D "AAA"', 'C "AAA"', 'C 1 "AAA" =', 'commodity "AAA"', 'A "AAA"',
               'P 2020/01/01 "A"', 'P "AAA"', 'i 2020/01/01 00:00:00 A', 'apply account "A"', 'alias "A"=', 'bucket "A"', 'year 2020', 'Y 2020',
               'define "a"', 'tag "a"', 'payee "a"', 'account "a"', 'include "', '= "a"', '~ "a"', '2020/01/01 "p"', '2020/01/01 * "p"']


def truncated(ctx, res, binary=None, env=None, sanitizer=False):
    cases = []
    for i, t in enumerate(TRUNCATED):
        for nl in ('', '\n'):
            v = VERBS_SMALL[(i + len(nl)) % len(VERBS_SMALL)]
            name = 'directive:' + re.sub(r'[^\w=~@!;#%|*-]+', '_', t)[:24]
            cases.append(Case(name, t + nl, v + NOW, info=dict(t=t)))
            # the same fragment after a complete transaction
            if not sanitizer or nl:
                cases.append(Case(name + ':after-xact', '2020/01/01 p\n  A  $1\n  B\n' + t + nl, v + NOW, info=dict(t=t)))
    # what a line means cannot depend on the comment line before it: the same fragment after two
    # comments of equal length whose bytes differ (digits / letters).  A different outcome means that
    # the directive read the line buffer beyond its own terminator (bytes the earlier line left there).
    pairs = []
    for i, t in enumerate(TRUNCATED + STALE_EXTRA):
        if '\n' in t or '\x00' in t:
            continue
        v = VERBS_SMALL[i % len(VERBS_SMALL)]
        name = 'directive:' + re.sub(r'[^\w=~@!;#%|*"-]+', '_', t)[:24]
        pair = [Case(name + ':after-comment', '; ' + fill * 120 + '\n' + t + '\n', v + NOW, info=dict(t=t)) for fill in ('1', 'x')]
        pairs.append(pair)
        cases += pair
    run_cases(ctx, cases, 'trunc', binary, env)
    for c in cases:
        res.evaluations += 1
        res.count('truncated-directive')
        add_violations(res, c, judge(c, sanitizer))
    for a, b in pairs:
        def seen(c):
            errs = [re.sub(r'/[^"\s]*/cases/\w+/', '', l) for l in c.result[2].decode('latin-1').split('\n') if l.startswith('Error:')]
            return (obs_class(c), errs)
        if seen(a) != seen(b) and not any(obs_class(c).startswith(('signal', 'timeout')) for c in (a, b)):
            add_violations(res, a, [('reads-beyond-line-end:' + a.construct.replace(':after-comment', ''),
                                     'the outcome of the line %r depends on the bytes of the comment line before it' % a.info['t'],
                                     '%s after a comment of digits, %s after a comment of letters' % (seen(a), seen(b)), 'the same outcome')])
    return cases


# ------------------------------------------------------------------------------ long tokens elsewhere

def long_tokens(ctx, res, binary=None, env=None, sanitizer=False):
    j = '2020/01/01 p\n  A  $1\n  B\n'
    cases = []
    for n in [65533, 65534, 65535, 65536, 65537, 70000, 120000]:
        cases.append(Case('format-literal-length', j, ['reg', '--format', 'a' * n + '\n'], info=dict(n=n)))
    for n in [4094, 4095, 4096, 4097, 5000, 70000]:
        cases.append(Case('repl-token-length', j, [], stdin=('reg ' + 'a' * n + '\nbal\n').encode(), repl=True, info=dict(n=n)))
        cases.append(Case('repl-quoted-token-length', j, [], stdin=("reg 'b" + ' b' * (n // 2) + "'\n").encode(), repl=True, info=dict(n=n)))
        cases.append(Case('args-only-token-length', j, ['--args-only', 'reg', 'a' * n], info=dict(n=n)))
        cases.append(Case('query-term-length', j, ['reg', 'a' * n], info=dict(n=n)))
        cases.append(Case('limit-expression-length', j, ['reg', '-l', 'account =~ /' + 'a' * n + '/'], info=dict(n=n)))
        cases.append(Case('payee-length', '2020/01/01 ' + 'p' * n + '\n  A  $1\n  B\n', ['reg'], info=dict(n=n)))
        cases.append(Case('tag-name-length', '2020/01/01 p\n  A  $1 ; ' + 't' * n + ': v\n  B\n', ['reg', '%' + 't' * 10], info=dict(n=n)))
        cases.append(Case('metadata-value-length', '2020/01/01 p\n  ; k: ' + 'v' * n + '\n  A  $1\n  B\n', ['print'], info=dict(n=n)))
        cases.append(Case('code-length', '2020/01/01 (' + 'c' * n + ') p\n  A  $1\n  B\n', ['print'], info=dict(n=n)))
    for opt in ['--date-format', '--input-date-format', '--datetime-format']:
        for n in [10, 120, 126, 127, 128, 129, 200, 5000]:
            f = ('%Y-%m-%d ' * 1000)[:n]
            cases.append(Case('date-format-length', j, ['reg', opt, f], info=dict(n=n)))
            cases.append(Case('date-format-literal-length', j, ['reg', opt, '%Y' + 'x' * n], info=dict(n=n)))
    E = lambda cls: dict(expect=cls)
    cases.append(Case('script-file-unreadable', j, ['--script', '/nonexistent/c11-1'], info=E('error')))
    for n in [100, 1021, 1022, 1023, 1024, 1100, 4000]:
        cases.append(Case('script-line-length', j, ['--script', '@script.txt@'], files={'script.txt': 'bal ' + 'A' * (n - 4) + '\nbal\n'}, info=E('ok')))
    cases.append(Case('script-line-length', j, ['--script', '@script.txt@'], files={'script.txt': '# c\n  bal A\nreg B'}, info=E('ok')))
    cases.append(Case('repl-push-depth', j, [], stdin=('push\n' * 5000 + 'bal\n').encode(), repl=True, info=E('ok')))
    cases.append(Case('repl-push-depth', j, [], stdin=('push\n' * 40 + 'pop\n' * 40 + 'bal\n').encode(), repl=True, info=E('ok')))
    # deep structures other than expressions
    for d in [100, 400, 1500, 2040]:
        cases.append(Case('account-nesting-depth', '2020/01/01 p\n  ' + 'x:' * d + 'y  $1\n  B\n', ['bal'], info=E('ok')))
        cases.append(Case('account-nesting-depth', '2020/01/01 p\n  ' + 'x:' * d + 'y  $1\n  B\n', ['reg'], info=E('ok')))
    # account.cc find_account: assert(sep < 256) on the first segment
    for n, cls in ((254, 'ok'), (255, 'ok'), (256, 'error'), (257, 'error'), (4000, 'error')):
        cases.append(Case('account-first-segment', '2020/01/01 p\n  %s:B  $1\n  C\n' % ('A' * n), ['bal'], info=E(cls)))
    # option names around the 126-character limit: always "Illegal option"
    for n in (125, 126, 127, 128, 129):
        cases.append(Case('option-name', j, ['bal', '--' + 'o' * n], info=E('error')))
    for d in [10, 100, 1000]:
        cases.append(Case('apply-account-depth', 'apply account a\n' * d + j + 'end apply account\n' * d, ['bal'], info=dict(n=d)))
        cases.append(Case('alias-chain-length', ''.join('alias a%d=a%d\n' % (i, i + 1) for i in range(d)) + '2020/01/01 p\n  a0  $1\n  B\n',
                          ['bal', '--recursive-aliases'], info=dict(n=d)))
    # a conversion directive naming one commodity on both sides
    for t in ['C 1 a = 2 a\n', 'C $4 = $-110\n', 'C 1 a = 2 b\nC 1 b = 2 a\n', 'C 1 a = 2 b\nC 1 b = 2 c\nC 1 c = 2 a\n']:
        cases.append(Case('commodity-conversion-self', t + '2020/01/01 p\n  A  2 a\n  A  $2\n  B\n', ['bal'], info=E('error')))
    # the same through an annotated commodity, which shares its base's links (F51 until repaired:
    # the expected class is 'error' as soon as the translator sees the repair in the source)
    for t in ['C 1 a {$1} = 2 a\n', 'C 1 a = 2 a {$1}\n', 'C 1 a {$1} = 2 b\nC 1 b = 2 a [2020/01/01]\n']:
        cases.append(Case('commodity-conversion-annotated-self', t + '2020/01/01 p\n  A  2 a\n  B\n', ['bal'],
                          info=E('error') if GUARDS.get('conversion_cycle_by_referent') else {}))
    cases.append(Case('commodity-conversion', 'C 1 a {$1} = 2 b\n2020/01/01 p\n  A  2 a\n  B\n', ['bal'], info=E('ok')))
    # a conversion cycle through the `larger` links only (F59 until repaired)
    cases.append(Case('commodity-conversion-larger-cycle', 'C 1 a = 1 b\nC 1 a = 1 z\nC 1 b = 1 a\n2020/01/01 p\n  A  2 b\n  B\n', ['bal'],
                      info=E('error') if GUARDS.get('conversion_larger_chain_guard') else {}))
    cases.append(Case('commodity-conversion', 'C 1 a = 1 b\nC 1 a = 1 z\n2020/01/01 p\n  A  2 b\n  A  3 z\n  B\n', ['bal'], info=E('ok')))
    # a journal that includes itself, directly or through another file (F58 until repaired)
    inc = E('error') if GUARDS.get('include_self_guard') else {}
    cases.append(Case('include-self', 'include j.dat\n' + j, ['bal'], info=inc))
    cases.append(Case('include-self', j + 'include s2.dat\n', ['bal'], files={'s2.dat': 'include j.dat\n'}, info=inc))
    cases.append(Case('include-self', 'include s2.dat\n', ['bal'], files={'s2.dat': 'include s3.dat\n', 's3.dat': 'include s2.dat\n'}, info=inc))
    cases.append(Case('include-self', 'include *.dat\n' + j, ['bal'], info=inc))
    cases.append(Case('include', 'include s2.dat\ninclude s2.dat\n' + j, ['bal'], files={'s2.dat': '2020/01/02 q\n  C  $2\n  D\n'}, info=E('ok')))
    cases.append(Case('include', 'include nonexistent.dat\n' + j, ['bal'], info=E('error')))
    # the xact command: a cost with no posting to attach it to (F57 until repaired)
    dg = GUARDS.get('draft_cost_post_guard')
    for a, cls in ((['foo', '@', '5'], 'error'), (['@', '5'], 'error'), (['foo', '@'], 'error'), (['foo', '@@', '5'], 'error'),
                   (['foo', 'A', '5', '@', '3'], 'ok'), (['foo', 'A', '5 AAA', '@@', '$3'], 'ok'), (['p', '5', '@'], 'error')):
        cases.append(Case('xact-cost-without-posting', j, ['xact'] + a + NOW, info=E(cls) if dg else {}))
    # definitions that refer to each other (F52 until repaired)
    dj = 'define foo = bar\ndefine bar = foo\n' + j
    for a in (['reg', '--amount', 'foo(1)'], ['reg', '--amount', 'foo'], ['bal', '-l', 'foo']):
        cases.append(Case('define-recursion', dj, a + NOW, info=E('error') if GUARDS.get('calc_depth_limit') else {}))
    cases.append(Case('define-recursion', 'define f(x) = f(x)\n' + j, ['reg', '--amount', 'f(1)'] + NOW,
                      info=E('error') if GUARDS.get('calc_depth_limit') else {}))
    cases.append(Case('define-recursion', None, ['eval', 'f(x)=g(x); g(x)=f(x); f(1)']))
    cases.append(Case('define', 'define twice(x) = x * 2\n' + j, ['reg', '--amount', 'twice(amount)'] + NOW, info=E('ok')))
    cases.append(Case('commodity-conversion', 'C 1.00 Kb = 1024 b\nC 1.00 Mb = 1024 Kb\n2020/01/01 p\n  A  2000000 b\n  B\n', ['bal'], info=E('ok')))
    cases.append(Case('commodity-conversion', 'C 1 a = 2 b\nC 1 b = 2 c\n2020/01/01 p\n  A  2 a\n  B\n', ['bal'], info=E('ok')))
    # the xact/entry command adds the drafted transaction to the journal after the parse context is gone
    cases.append(Case('draft-auto-xact-check', '= /Checking/\n  check account =~ /Foo/\n2010/06/24 Sample\n  Expenses:Food  $100\n  Assets:Checking\n',
                      ['xact', 'Sample'] + NOW))
    cases.append(Case('draft-tag-check', 'tag Project\n    check value =~ /^(a|b)$/\n2016/02/01 * Test\n    Expenses:Hosting   20.00 USD\n        ; Project: foo\n    Assets:Cash\n',
                      ['xact', 'Test'] + NOW))
    cases.append(Case('draft-auto-xact', '= /Checking/\n  (Budget)  $1\n2010/06/24 Sample\n  Expenses:Food  $100\n  Assets:Checking\n',
                      ['xact', 'Sample'] + NOW))
    # roundto with an enormous number of places: 10^places is computed
    limq = []
    for n in (0, 3, -3, 65534, 65535, 65536, -65535, -65536, 100000, 2147483647):
        cases.append(Case('roundto-huge-places', None, ['eval', 'roundto(1.5, %d)' % n], info=dict(limit=[('roundto-places', abs(n))])))
    for n in (2147483648, 99999999999):         # wrap around in to_int, still far beyond the limit
        cases.append(Case('roundto-huge-places', None, ['eval', 'roundto(-123.45, %d)' % n], info=E('error')))
    # query nesting and query length.  A chain of k terms is printed as k nested parentheses and
    # parsed again as an expression, so the expression nesting limit applies to it as well.
    for k in (1, 2, 254, 255, 256, 257, 258, 2048, 20000):
        cases.append(Case('query-term-count', j, ['reg'] + ['A'] * k, info=dict(limit=[('query', 0, k), ('expr-depth', k)])))
    for k in (255, 256, 257):
        cases.append(Case('query-term-count', j, ['reg'] + ' or '.join(['A'] * k).split(' '), info=dict(limit=[('query', 0, k), ('expr-depth', k)])))
        cases.append(Case('query-term-count', j, ['reg'] + ' and '.join(['A'] * k).split(' '), info=dict(limit=[('query', 0, k), ('expr-depth', k)])))
    # nested parentheses: every `(` costs two calls of parse_query_term, so the term limit bites first
    for d in (1, 2, 100, 125, 126, 127, 128, 129, 130, 254, 255, 256, 257, 258, 20000):
        cases.append(Case('query-nesting-depth', j, ['reg'] + ['('] * d + ['A'] + [')'] * d, info=dict(limit=[('query', d, 1)])))
    # d parentheses around k terms, on both sides of 2 d + k + 1 = limit
    for d, k in ((1, 253), (1, 254), (1, 255), (10, 235), (10, 236), (10, 237), (100, 55), (100, 56), (100, 57), (127, 1), (127, 2), (127, 3)):
        cases.append(Case('query-nesting-and-terms', j, ['reg'] + ['('] * d + ['A'] * k + [')'] * d, info=dict(limit=[('query', d, k), ('expr-depth', k)])))
    cases.append(Case('query-prefix-chain', j, ['reg'] + ['code'] * 20000 + ['x'], info=E('error')))
    # any / all without an argument
    for e, cls in (('account("A").any', 'error'), ('account("A").all', 'error'), ('account("A").any()', 'error'), ('account("A").all(1)', 'ok'),
                   ('account("A").any(amount > 0)', 'ok'), ('any', 'error'), ('all', 'error'), ('any()', 'error'), ('all()', 'error'),
                   ('any(amount > 0)', 'ok'), ('all(amount > 0)', 'ok')):
        cases.append(Case('expr-any-all-no-argument', j, ['reg', '-l', e] + NOW, info=E(cls)))
    cases.append(Case('expr-any-all-no-argument', j + 'check account("A").all\n', ['bal'] + NOW, info=E('error')))
    # --by-payee with an account/payee rewrite
    for extra in (['--account', 'payee'], ['--payee', 'account'], ['--account', 'payee', '--flat']):
        cases.append(Case('by-payee-account-rewrite', j, ['bal', '--by-payee'] + extra + NOW))
        cases.append(Case('by-payee-account-rewrite', j, ['reg', '--by-payee'] + extra + NOW))
    # options that reach through the temporary transaction of generated budget postings
    bj = '~ Monthly\n  Expenses:Rent  $550.00\n  Assets\n\n2020/01/15 p\n  Expenses:Rent  $500.00\n  Assets\n'
    for extra in (['--anon'], ['--account', 'payee'], ['--payee', 'account'], ['--pivot', 'tag'], []):
        cases.append(Case('budget-temporary-xact', bj, ['budget'] + extra + NOW, info=E('ok')))
        cases.append(Case('budget-temporary-xact', bj, ['reg', '--budget'] + extra + NOW, info=E('ok')))
        cases.append(Case('forecast-temporary-xact', bj, ['reg', '--forecast-while', 'd<[2022]'] + extra + NOW, info=E('ok')))
    run_cases(ctx, cases, 'long', binary, env)
    # the numeric guards: the expected class comes from the limits regenerated from the source
    lim_lines, lim_at = [], []
    for i, c in enumerate(cases):
        for lim in c.info.get('limit', []):
            lim_lines.append(lib.sx((['query'] if lim[0] == 'query' else ['limit']) + ['q%d' % len(lim_lines)] +
                                    (list(lim[1:]) if lim[0] == 'query' else list(lim))))
            lim_at.append(i)
    verdict = {}
    if lim_lines and not sanitizer:
        for i, l in zip(lim_at, lib.run_model('C11', lim_lines)):
            verdict[i] = verdict.get(i, True) and l.endswith(' within')
    for i, c in enumerate(cases):
        res.evaluations += 1
        res.count('long:' + c.construct)
        add_violations(res, c, judge(c, sanitizer))
        exp = c.info.get('expect')
        if i in verdict:
            exp = 'ok' if verdict[i] else 'error'
            res.nontrivial.add('limit:%s:%s' % (c.construct, c.info['limit']))
        if exp and not sanitizer:
            res.traces += 1
            got = obs_class(c)
            if c.repl and got == 'other:0':
                got = 'ok'
            if got != exp and got != 'timeout' and not got.startswith('signal'):
                res.disagreements.append(dict(name='C11/directed:' + c.construct, case=dict(args=[a[:80] for a in c.args[:8]], n=len(c.args)),
                                              impl=got, model=exp))
    return cases


# ------------------------------------------------------------------------------ format strings

FMT_JOURNAL = ('P 2020/01/01 AAA $2\n~ Monthly\n  Expenses:Rent  $5.00\n  Assets\n\n'
               '2020/01/15 * (c1) payee one  ; note\n  Expenses:Rent  $5.00\n  Assets:Cash\n'
               '2020/02/15 payee two\n  Assets:Stock  3 AAA @ $2\n  Assets:Cash\n')
FMT_COMMANDS = [('reg', '--format'), ('reg', '-F'), ('reg', '--register-format'), ('bal', '--format'), ('bal', '--balance-format'),
                ('csv', '--csv-format'), ('prices', '--prices-format'), ('pricedb', '--pricedb-format'), ('cleared', '--cleared-format'),
                ('budget', '--budget-format'), ('print', '--format'), ('equity', '--format'), ('accounts', '--format'), ('payees', '--format')]
# verbs whose report really parses the format given by that option (the others ignore it)
FMT_PARSING = {('reg', '--format'), ('reg', '-F'), ('reg', '--register-format'), ('bal', '--format'), ('bal', '--balance-format'),
               ('csv', '--csv-format'), ('prices', '--prices-format'), ('pricedb', '--pricedb-format'), ('cleared', '--cleared-format'),
               ('budget', '--budget-format')}
FMT_OTHER_OPTIONS = [('reg', ['--prepend-format']), ('bal', ['--prepend-format']), ('reg', ['--group-by', 'payee', '--group-title-format']),
                     ('reg', ['-j', '--plot-amount-format']), ('reg', ['-J', '--plot-total-format']), ('reg', ['--date-format']),
                     ('reg', ['--datetime-format']), ('reg', ['--input-date-format'])]
FMT_MALFORMED = ['%', '%-', '%--', '%.', '%..', '%20', '%-20', '%20.', '%20.5', '%-20.5', '%(', '%((', '%(account', '%(account))', '%()', '%{', '%{amount',
                 '%{}', '%[', '%[%Y', '%[%Y]', '%]', '%}', '%)', '%$', '%$0', '%$1', '%$9', '%$A', '%$F', '%$G', '%$a', '%$$', '%$-1', '%$10', '%%', '%%%',
                 '%Z', '%z', '%1', '%01', '%00000000', '%-0', '%\\', '\\', '%/', '%/%/', '%/%/%/', '%/%/%/%/', '%/%', '%/%$', '%/%$0', '%/%$G', '%/%$1',
                 '%/%$2', '%/%$F', '%/%/%$1', '%/%/%$F', '%(account)%/%$1%/%$2', '%(account)%/%/%$1', '%(account)%/%$1%$1%$1', '%/%(account)%/%$1',
                 '%20(account)', '%-20.10(account)', '%.5(account)', '%0.0(account)', '%1000(account)', '%100000(account)', '%1000000(account)',
                 '%-1000.1000(account)', '%20P', '%20.20T', '%1000t', '%(1/0)', '%(to_int(1)/to_int(0))', '%(account', "%('", '%(")', '%(/', '%(]',
                 '%(account)' * 50, '%(' + '(' * 300 + '1' + ')' * 300 + ')', '%(' + '+'.join(['1'] * 3000) + ')', '%' + '-' * 5000, '%' + '%' * 4999,
                 '%(a' + 'x' * 5000 + ')', 'a' * 70000, '\\' * 3001, '%(account)\\', '%(account)%', 'x%', '\xff\xfe%(account)\xff']
FMT_TRAILING_BACKSLASH = ['%(account) and some literal text\\', 'text only, longer than a short string buffer\\', '%(account)\\n%/%(payee)\\',
                          '%20(account)|\\\\\\', '\\n\\']
# widths so large that the padding is gigabytes: one probe only (it is a known finding while unrepaired)
FMT_HUGE_WIDTH = ['%.99999999999(account)\n']


def template_text(kinds):
    """a first part whose element list has exactly these kinds: E = %(7) (valid in every scope), S = literal text"""
    out = ''
    for i, k in enumerate(kinds):
        out += '%(7)' if k == 'E' else '|x'[i % 2]
    return out


def formats(ctx, res, binary=None, env=None, sanitizer=False):
    rng = ctx.rng
    cases, lines = [], []
    digits = '123456789ABCDEF'
    shapes = []
    for f in range(0, 17):
        ke = 'S'.join(['E'] * f)                    # E S E ... E : f fields separated by literals
        shapes += [ke, ('S' + ke) if f else 'S', 'E' * f, (ke + 'S') if f else '']
    shapes = sorted(set(shapes), key=lambda k: (k.count('E'), k))
    combos = [(k, d) for k in shapes for d in digits + '0G']
    want = ctx.scale(700, len(combos) * 2)
    if want < len(combos):
        # every template size against every index once, the rest sampled
        base = [(k, d) for k in shapes if set(k) <= {'E', 'S'} and k == 'S'.join(['E'] * k.count('E')) for d in digits]
        combos = base + rng.sample([c for c in combos if c not in base], max(0, want - len(base)))
    for i, (kinds, d) in enumerate(combos):
        verb, opt = rng.choice(sorted(FMT_PARSING))
        part = rng.choice([2, 2, 3])
        first = template_text(kinds)
        fmt = first + '\\n%/' + ('--\\n%/' if part == 3 else '') + '%$' + d + ' ;\\n'
        kinds_eff = kinds + 'S'                    # the trailing \n of the first part is a STRING element
        index = digits.index(d) + 1 if d in digits else (0 if d == '0' else 16)
        cases.append(Case('format-field-ref', FMT_JOURNAL, [verb, opt, fmt] + NOW, info=dict(kinds=kinds_eff, index=index, d=d, fmt=fmt)))
        lines.append(lib.sx(['fieldref', 'f%d' % i, kinds_eff, index]))
    mal = []

    def construct_of(t):
        # a format that ends in a lone backslash has its own construct (F67 until repaired)
        trailing = len(t) - len(t.rstrip('\\'))
        return 'format-trailing-backslash' if trailing % 2 == 1 else 'format-directive'
    bs = GUARDS.get('format_backslash_guard')
    for j, t in enumerate(FMT_MALFORMED + FMT_TRAILING_BACKSLASH):
        con = construct_of(t)
        info = dict(t=t[:40], expect='error' if (con == 'format-trailing-backslash' and bs) else None)
        for verb, opt in (FMT_COMMANDS if len(t) < 200 else FMT_COMMANDS[:5]):
            mal.append(Case(con, FMT_JOURNAL, [verb, opt, t] + NOW, info=dict(info) if (verb, opt) in FMT_PARSING else dict(t=t[:40])))
        for verb, opts in FMT_OTHER_OPTIONS:
            mal.append(Case(con, FMT_JOURNAL, [verb] + opts + [t] + NOW, info=dict(t=t[:40])))
        mal.append(Case(con, FMT_JOURNAL, ['reg', '--format', '%(account)\\n%/' + t] + NOW, info=dict(info)))
    wl = GUARDS.get('format_width_limit')
    huge = list(FMT_HUGE_WIDTH)
    if wl:
        huge += ['%99999999999999999999(account)\\n', '%%%d(account)\\n' % (wl + 1), '%%.%d(account)\\n' % (wl + 1), '%%%d.%d(account)\\n' % (wl + 1, wl + 1)]
        for w in (wl - 1, wl):
            mal.append(Case('format-width', FMT_JOURNAL, ['reg', '--format', '%%.%d(account)|\\n' % w] + NOW, info=dict(expect='ok')))
    for t in huge:
        mal.append(Case('format-huge-width', FMT_JOURNAL, ['reg', '--format', t] + NOW, info=dict(t=t, expect='error' if wl else None)))
    if sanitizer:
        mal = mal[::3]
    elif ctx.tier != 'thorough':
        mal = mal[ctx.seed % 2::2]          # quick tier: half of the malformed-directive runs, alternating with the seed
    run_cases(ctx, cases + mal, 'fmt', binary, env)
    model = lib.run_model('C11', lines) if not sanitizer else [''] * len(cases)
    for case, ml in zip(cases, model):
        res.evaluations += 1
        res.count('format:field-ref')
        add_violations(res, case, judge(case, sanitizer))
        if sanitizer:
            continue
        res.traces += 1
        verdict = ml.split(' ')[1]
        res.count('format:field-ref:' + verdict)
        info = case.info
        nexpr = info['kinds'][1:].count('E')
        if abs(info['index'] - (nexpr + 2)) <= 2:
            res.nontrivial.add('fieldref:%s:%s' % (info['kinds'], info['d']))
        got = obs_class(case)
        if got.startswith('signal') or got == 'timeout':
            continue
        exp = 'ok' if verdict == 'Found' else 'error'
        if verdict == 'Crash':
            res.disagreements.append(dict(name='C11/format-field-ref-model', case=info['fmt'], impl=got, model=ml))
        elif got != exp:
            res.disagreements.append(dict(name='C11/format-field-ref', case=dict(fmt=info['fmt'], args=case.args[:2]), impl=got, model=ml))
        elif exp == 'error':
            err = case.result[2]
            msg = b'non-existent prior field' if verdict == 'NoSuchField' else b'must be a digit'
            if msg not in err:
                res.disagreements.append(dict(name='C11/format-field-ref-message', case=info['fmt'], impl=err[-120:].decode('latin-1'), model=ml))
    for c in mal:
        res.evaluations += 1
        res.count('format:directive')
        add_violations(res, c, judge(c, sanitizer))
        exp = c.info.get('expect')
        got = obs_class(c)
        if exp and not sanitizer and got != exp and got != 'timeout' and not got.startswith('signal'):
            res.disagreements.append(dict(name='C11/directed:' + c.construct, case=c.args[2][:80], impl=got, model=exp))
    if not sanitizer:
        memcheck_formats(ctx, res)
    if len(res.samples) < 7 and cases:
        res.samples.append(dict(construct='format-field-ref', format=cases[0].info['fmt'], impl=obs_class(cases[0]), model=model[0]))


def memcheck_formats(ctx, res):
    """the quick tier has no sanitizer build: a small sample of the malformed formats runs under
    valgrind memcheck (about 1.5 s a run), so that reads and writes past a buffer are seen there too"""
    vg = shutil.which('valgrind')
    if not vg:
        res.notes.append('valgrind not found: the malformed-format sample was not run under memcheck')
        return
    rng = ctx.rng
    short = [t for t in FMT_MALFORMED if len(t) < 200 and '(account)' * 3 not in t and '1000' not in t]
    pick = FMT_TRAILING_BACKSLASH[:3] + ['\\', '%(account)\\'] + rng.sample(short, min(len(short), ctx.scale(27, 120)))
    cases = []
    for i, t in enumerate(pick):
        trailing = len(t) - len(t.rstrip('\\'))
        con = 'format-trailing-backslash' if trailing % 2 == 1 else 'format-directive'
        verb, opt = [('reg', '--format'), ('bal', '--format'), ('csv', '--csv-format')][i % 3]
        cases.append(Case(con, FMT_JOURNAL, [verb, opt, t] + NOW, info=dict(t=t[:40])))
    global TIMEOUT
    saved = TIMEOUT
    TIMEOUT = 60
    try:
        run_cases(ctx, cases, 'vg', None, lib.ledger_env({'C11_VALGRIND': vg}), confirm=False)
    finally:
        TIMEOUT = saved
    for c in cases:
        res.evaluations += 1
        res.count('format:memcheck')
        st, out, err = c.result
        if st == 99 or (isinstance(st, int) and st < 0) or st == 'timeout':
            m = re.search(rb'== (Invalid (?:read|write) of size \d+|Conditional jump or move depends on uninitialised|Use of uninitialised value|[A-Z][^\n]{0,60})', err)
            kind = re.sub(r'[^a-z0-9]+', '-', (m.group(1).decode('latin-1') if m else str(st)).lower()).strip('-')
            kind = re.sub(r'-of-size-\d+$', '', kind)
            res.violations.append(dict(key='memcheck:%s:%s' % (kind, c.construct), desc='valgrind memcheck: ' + err[:400].decode('latin-1'),
                                       case=c.replay_obj(), observed=kind, required='no memory error'))


# ------------------------------------------------------------------------------ early options, function arguments

EARLY_OPTIONS = ['--trace', '--debug', '--verbose', '-v', '--verify', '--verify-memory', '--args-only', '--init-file', '--script',
                 '--options', '--memory', '--version', '--help', '--full-help']
EARLY_ARGS = ['', 'foo', '-1', '0', '1', '65535', '65536', '99999999999999999999', '1.5', ' 1', '1 ', '0x10', '1e3', '+1', '--', '-', '\xff',
              'a' * 5000, '/nonexistent/x', '/', '.', '%s%s%s', '1;2']


def early_options(ctx, res, binary=None, env=None, sanitizer=False):
    j = '2020/01/01 p\n  A  $1\n  B\n'
    cases = []
    dg = GUARDS.get('debug_options_guard')
    for o in EARLY_OPTIONS:
        if o in ('--help', '--full-help'):
            continue                                # start a pager / man
        for i, a in enumerate(EARLY_ARGS):
            exp = None
            if o == '--trace':
                # boost::lexical_cast<uint16_t>: an optional sign and digits, value within 16 bits
                numeric = re.fullmatch(r'[+-]?[0-9]+', a) is not None and abs(int(a)) <= 65535
                exp = ('ok' if numeric else 'error') if dg else None
            for pos in range(3):
                if (i + pos) % 3 and o != '--trace':
                    continue                        # one position per (option, argument), all three for --trace
                args = {0: [o, a, 'bal'], 1: ['bal', o, a], 2: ['--args-only', o, a, 'bal']}[pos]
                cases.append(Case('early-option:' + o, j, args, info=dict(expect=exp if pos != 1 or a != '' else None)))
        cases.append(Case('early-option:' + o, j, ['bal', o], info={}))          # the option last, without argument
        cases.append(Case('early-option:' + o, None, [o], info={}))
    for o in ('--script', '--init-file'):
        cases.append(Case('early-option:' + o, j, [o, '@dir@', 'bal'], files={'dir': ''}, info={}))
    run_cases(ctx, cases, 'early', binary, env)
    for c in cases:
        res.evaluations += 1
        res.count('early-option')
        add_violations(res, c, judge(c, sanitizer))
        exp = c.info.get('expect')
        if exp and not sanitizer:
            res.traces += 1
            got = obs_class(c)
            if got != exp and got != 'timeout' and not got.startswith('signal'):
                res.disagreements.append(dict(name='C11/directed:' + c.construct, case=[a[:40] for a in c.args], impl=got, model=exp))


FN_NUMBERS = ['0', '-1', '2147483647', '2147483648', '9223372036854775807', '1000000000000', '-2147483648', '-9223372036854775808',
              '9223372036854775808', '65535', '65536', '4095', '4096']
FN_FIRSTS = ['1', '$10.00', '"abc"', '[2020/01/01]', '(1, 2, 3)', '($1 + 2 EUR)', 'true']


def function_arguments(ctx, res, binary=None, env=None, sanitizer=False):
    """every value-expression function of report_t::lookup with extreme numeric arguments"""
    rng = ctx.rng
    fns = c11_buffers.report_functions(lib.REPO)
    res.extra['report_functions'] = len(fns)
    if len(fns) < 40:
        res.disagreements.append(dict(name='C11/report-functions', case='report.cc lookup', impl='%d functions found' % len(fns), model='>= 40'))
    jl = GUARDS.get('justify_width_limit')
    forms = []
    for f in fns:
        for n in FN_NUMBERS:
            forms.append((f, '%s(%s)' % (f, n), None))
            for a in FN_FIRSTS:
                forms.append((f, '%s(%s, %s)' % (f, a, n), (int(n),)))
                forms.append((f, '%s(%s, %s, %s)' % (f, a, n, n), (int(n), int(n))))
                forms.append((f, '%s(%s, 5, %s)' % (f, a, n), (5, int(n))))
    want = ctx.scale(1500, len(forms))
    pick = forms if want >= len(forms) else rng.sample(forms, want)
    # justify: all its forms, but while the width is not bounded in the source only one of the
    # hanging ones (each costs the whole time limit)
    pick = [x for x in pick if x[0] != 'justify'] + [x for x in forms if x[0] == 'justify']
    if jl is None:
        keep, hanging = [], 0
        for x in pick:
            if x[0] == 'justify' and x[2] and any(abs(v_) >= 2 ** 31 - 1 for v_ in x[2]):
                hanging += 1
                if hanging > 1:
                    continue
            keep.append(x)
        pick = keep
    cases = [Case('function-argument:' + f, '2020/01/01 p\n  A  $1\n  B\n', ['eval', e] + NOW, info=dict(fn=f, e=e, w=w)) for f, e, w in pick]
    run_cases(ctx, cases, 'fn', binary, env)
    for c in cases:
        res.evaluations += 1
        res.count('function-argument')
        add_violations(res, c, judge(c, sanitizer))
        if c.info['fn'] == 'justify' and c.info['w'] and jl is not None and not sanitizer:
            # the widths are C ints: what does not fit wraps around or is refused by to_int
            w = c.info['w']
            res.traces += 1
            got = obs_class(c)
            if all(abs(x) <= jl for x in w):
                exp = 'ok'
            elif any(jl < abs(x) <= 2 ** 31 for x in w):
                exp = 'error'
            else:
                exp = None
            res.nontrivial.add('justify:%s' % (w,))
            if exp and got != exp and got != 'timeout' and not got.startswith('signal'):
                res.disagreements.append(dict(name='C11/directed:justify-width', case=c.info['e'], impl=got, model=exp))


# ------------------------------------------------------------------------------ option values, query keywords, rules over periodic postings,
# commodity value expressions, repetition

INT_OPTIONS = ['--columns', '--head', '--tail', '--depth', '--seed', '--abbrev-len', '--account-width', '--amount-width', '--date-width',
               '--payee-width', '--total-width', '--meta-width', '--forecast-years', '--prepend-width', '--trace']
INT_VALUES = ['0', '-1', '1', '2147483647', '2147483648', '9223372036854775807', '1000000000000', 'x', '', '1.5', '1e9']


def option_values(ctx, res, binary=None, env=None, sanitizer=False):
    j = '2021/01/01 p\n  A  $1\n  B\n'
    cases = []
    # a pager that fails, succeeds, does not exist: the report is closed after main's try block
    for pg in ('false', 'true', 'cat', '/nonexistent/pager', 'sh -c "exit 3"', 'sh -c "kill -9 $$"', '', 'cat -', 'head -c 1'):
        for verb in ('bal', 'reg', 'print'):
            cases.append(Case('option-value:--pager', j, [verb, '--force-pager', '--pager', pg] + NOW, info={}))
    rb = GUARDS.get('repetition_bound')
    for o in INT_OPTIONS:
        for v in INT_VALUES:
            for verb in (['reg'], ['bal']):
                # the balance format repeats a character amount_width / prepend_width times (F176
                # until repaired: one hanging probe only, each costs the whole time limit)
                if not rb and verb == ['bal'] and o in ('--amount-width', '--prepend-width') and len(v) > 12 \
                        and not (o == '--amount-width' and v.startswith('92')):
                    continue
                con = 'option-value:' + o + (':repetition' if o in ('--amount-width', '--prepend-width') else '')
                cases.append(Case(con, j, verb + [o, v] + NOW, info={}))
    for o, vals in (('--output', ['/nonexistent/dir/x', '/dev/full', '/', '']), ('--price-db', ['/nonexistent', '/', '/dev/null']),
                    ('--sort', ['', '(', 'amount,', '-', 'x' * 5000]), ('--exchange', ['', ',', '$,', 'A:B', '!', '$!,EUR!']),
                    ('--begin', ['', 'x', '9999/99/99', 'every day']), ('--now', ['', 'x', '0000/00/00']), ('--pivot', ['', ':', 'x' * 300]),
                    ('--group-by', ['', '(', '1/0']), ('--payee', ['', '(', '1/0']), ('--account', ['', '(', '1/0']),
                    ('--inject', ['', ',', 'x,']), ('--unrealized-gains', ['', ':']), ('--master-account', ['', ':', 'a::b']),
                    ('--bold-if', ['(', '1/0']), ('--display', ['(', '1/0']), ('--only', ['(', '1/0']), ('--file', ['/', '/dev/null', '.'])):
        for v in vals:
            args = ['reg', o, v] + ([] if o == '--now' else NOW)
            cases.append(Case('option-value:' + o, j, args, info={}))
    run_cases(ctx, cases, 'optv', binary, env)
    for c in cases:
        res.evaluations += 1
        res.count('option-value')
        add_violations(res, c, judge(c, sanitizer))


QUERY_TOKENS = ['A', '"A"', "'A'", '/A/', 'show', 'bold', 'for', 'since', 'until', 'and', 'or', 'not', '(', ')', 'expr', 'code', 'payee', 'note',
                'account', 'meta', 'data', '=x', '#x', '%x', '@x', '2021', '"2021"', '"show"', "'for'", '"bold"', '"since"', "'until'", '/show/',
                '"', "'", '/', '""', "''", '//', 'A=B', '%tag=val', '!', '&', '|', '\\', 'this month', '"this month"']


def query_keywords(ctx, res, binary=None, env=None, sanitizer=False):
    rng = ctx.rng
    j = '2021/01/01 (c1) p  ; note\n  A  $1  ; tag: val\n  B\n'
    seqs = []
    kw = ['show', 'bold', 'for', 'since', 'until']
    quoted = ['"show"', "'show'", '/show/', '"bold"', '"for"', "'since'", '"until"', '"A"', '""', '"2021"', '"this month"']
    for k in kw:
        for q in quoted:
            seqs += [[k, q], ['A', k, q], [k, q, 'A'], [q, k, 'A'], [k, q, k, q], [k, 'A', q]]
    for _ in range(ctx.scale(300, 3000)):
        seqs.append([rng.choice(QUERY_TOKENS) for _ in range(rng.choice([1, 2, 2, 3, 4, 5]))])
    cases = []
    for i, sq in enumerate(seqs):
        verb = ['reg', 'bal', 'print'][i % 3]
        cases.append(Case('query-keyword', j, [verb] + sq + NOW, info=dict(q=sq)))
        if i % 4 == 0:
            cases.append(Case('query-keyword', j, ['query'] + sq, info=dict(q=sq)))
            cases.append(Case('query-keyword', j, ['reg', '-l', 'true', '--'] + sq + NOW, info=dict(q=sq)))
    run_cases(ctx, cases, 'qkw', binary, env)
    for c in cases:
        res.evaluations += 1
        res.count('query-keyword')
        add_violations(res, c, judge(c, sanitizer))


def rule_predicates(ctx, res, binary=None, env=None, sanitizer=False):
    """automated transactions are applied to the postings of periodic transactions too, and those have
    no parent transaction: every identifier a predicate may use, over such postings"""
    names = c11_buffers.scope_identifiers(lib.REPO)
    res.extra['scope_identifiers'] = len(names)
    if len(names) < 40:
        res.disagreements.append(dict(name='C11/scope-identifiers', case='post.cc item.cc xact.cc account.cc', impl='%d names' % len(names), model='>= 40'))
    preds = []
    for n in names:
        preds += ['expr %s' % n, 'expr %s =~ /x/' % n, 'expr %s > 0' % n, 'expr %s(amount > 0)' % n, 'expr xact.%s' % n, 'expr account.%s' % n,
                  'expr post.%s' % n]
    preds += ['#x', '=x', '@x', '%x', '%x=y', 'A', '/A/', 'expr any(code =~ /x/)', 'expr all(note =~ /x/, false)', 'expr has_tag(/x/)', 'expr tag("x")']
    body = '~ Monthly\n  Expenses:Rent  $5\n  Assets\n\n~ Yearly  ; note\n  ; tag: v\n  Expenses:Tax  $50\n  Assets\n\n2021/01/15 (c) p  ; n\n  Expenses:Rent  $4\n  Assets\n'
    cases = []
    for i, pr in enumerate(preds):
        jr = '= %s\n  (Rule)  1\n\n' % pr + body
        verbs = [['bal'], ['reg', '--budget'], ['reg', '--forecast-while', 'd<[2021/06/01]'], ['budget']]
        for v in (verbs if i % 5 == 0 else verbs[i % 4:i % 4 + 1]):
            cases.append(Case('rule-over-periodic-posting', jr, v + ['--now', '2021/03/01'], info=dict(pred=pr)))
    run_cases(ctx, cases, 'rule', binary, env)
    for c in cases:
        res.evaluations += 1
        res.count('rule-over-periodic-posting')
        add_violations(res, c, judge(c, sanitizer))


def commodity_values(ctx, res, binary=None, env=None, sanitizer=False):
    exprs = ['market(1 AAA, date)', 'market(amount, date)', 'market(1 AAA)', '5 EUR', 'amount * 2', 'market(1 BBB, date)', 'myval', 'myval(1)',
             'market(market(1 AAA, date), date)', '1 AAA', '2 AAA', 'AAA', '(s, d, t -> market(1 AAA, d, t))', '(s, d, t -> 7 EUR)',
             'total_expr', 'amount_expr', 'value_date', '1/0', '(', '', 'roundto(market(1 AAA, date), 2)']
    cases = []
    for e in exprs:
        for other in ('', 'commodity BBB\n  value market(1 AAA, date)\n'):
            head = 'define myval = market(1 AAA, date)\ncommodity AAA\n  value %s\n%sP 2021/01/01 AAA $2\nP 2021/01/01 BBB $3\n' % (e, other)
            jn = head + '2021/01/02 p\n  A  3 AAA\n  A  1 BBB\n  B\n'
            for a in (['bal', '-V'], ['bal', '-X', '$'], ['reg', '-V'], ['bal'], ['prices'], ['bal', '--market', '--historical']):
                cases.append(Case('commodity-value-expression', jn, a + NOW, info=dict(e=e)))
        # the same as a lot's valuation expression
        jl = 'P 2021/01/01 AAA $2\n2021/01/02 p\n  A  3 AAA ((%s))\n  B\n' % e
        for a in (['bal', '-V'], ['bal', '--lots'], ['print']):
            cases.append(Case('lot-value-expression', jl, a + NOW, info=dict(e=e)))
    run_cases(ctx, cases, 'cval', binary, env)
    for c in cases:
        res.evaluations += 1
        res.count('commodity-value-expression')
        add_violations(res, c, judge(c, sanitizer))


def repetition(ctx, res, binary=None, env=None, sanitizer=False):
    cases = []
    rb = GUARDS.get('repetition_bound')
    hanging = 0
    for left in ('""', '"ab"', '(1, 2)', '(1, "a")', 'commodity($1)', '"x" * 3', '()', 'account'):
        for n in FN_NUMBERS + ['524288', '524289', '1048576', '1048577', '100000000']:
            if not rb and abs(int(n)) >= 100000000 and not n.startswith('-'):
                hanging += 1
                if hanging > 1:
                    continue            # unbounded while F176 is unrepaired: one probe of the class
            cases.append(Case('repetition', '2021/01/01 p\n  A  $1\n  B\n', ['eval', '%s * %s' % (left, n)], info={}))
            if n in ('9223372036854775807', '1000000000000', '3') and (rb or n == '3'):
                cases.append(Case('repetition', '2021/01/01 p\n  A  $1\n  B\n', ['reg', '--format', '%%(%s * %s)\\n' % (left, n)] + NOW, info={}))
    run_cases(ctx, cases, 'rep', binary, env)
    for c in cases:
        res.evaluations += 1
        res.count('repetition')
        add_violations(res, c, judge(c, sanitizer))


# ------------------------------------------------------------------------------ definitions that refer to themselves

RECURSION_SHAPES = [
    # (position of the self-reference, define lines, expression evaluated)
    ('direct', ['foo(x) = foo(x)'], 'foo(1)'),
    ('direct', ['foo = bar', 'bar = foo'], 'foo'),
    ('direct', ['foo = bar', 'bar = foo'], 'foo(1)'),
    ('mutual', ['foo(x) = bar(x)', 'bar(y) = foo(y)'], 'foo(1)'),
    ('mutual', ['foo(x) = bar(x)', 'bar(y) = baz(y)', 'baz(z) = foo(z)'], 'foo(1)'),
    ('binary', ['foo(x) = 1 + foo(x - 1)'], 'foo(1)'),
    ('binary', ['foo(x) = foo(x) * 2'], 'foo(1)'),
    ('unary', ['foo(x) = -foo(x)'], 'foo(1)'),
    ('unary', ['foo(x) = ! foo(x)'], 'foo(1)'),
    ('ternary', ['foo(x) = x > 0 ? foo(x) : 1'], 'foo(1)'),
    ('ternary', ['foo(x) = foo(x) ? 1 : 2'], 'foo(1)'),
    ('list', ['foo(x) = (foo(x), 1)'], 'foo(1)'),
    ('sequence', ['foo(x) = (1; foo(x))'], 'foo(1)'),
    ('lambda', ['foo = x -> foo(x)'], 'foo(1)'),
    ('call-arg-builtin', ['foo(x) = abs(foo(x))'], 'foo(1)'),
    ('call-arg-builtin', ['foo(x) = roundto(foo(x), 2)'], 'foo(1)'),
    ('call-arg-builtin', ['foo(x) = justify(foo(x), 5)'], 'foo(1)'),
    ('call-arg-builtin', ['foo(x) = to_int(quantity(foo(x)))'], 'foo(1)'),
    ('call-arg-builtin', ['foo(x) = format_date(foo(x))'], 'foo(1)'),
    ('call-arg-builtin', ['foo(x) = abs(bar(x))', 'bar(y) = abs(foo(y))'], 'foo(1)'),
    ('any-all', ['foo(x) = any(foo(x))'], 'foo(1)'),
    ('any-all', ['foo(x) = all(foo(x))'], 'foo(1)'),
    ('call-arg-user', ['foo(x) = bar(foo(x))', 'bar(y) = y + 1'], 'foo(1)'),
    ('call-arg-user', ['foo(x) = bar(1, foo(x))', 'bar(y, z) = y + 1'], 'foo(1)'),
    ('call-arg-user', ['foo(x) = bar(bar(foo(x)))', 'bar(y) = y'], 'foo(1)'),
    ('nested-self', ['foo(x) = foo(foo(x))'], 'foo(1)'),
    ('nested-self', ['foo(x) = foo(x + foo(x))'], 'foo(1)'),
]
# recursion that ends: must evaluate
RECURSION_CONTROLS = [(['twice(x) = x * 2'], 'twice(amount)'), (['twice(x) = x * 2', 'quad(x) = twice(twice(x))'], 'quad(amount)'),
                      (['mag(x) = abs(x)'], 'mag(amount)')]
# positions whose recursion goes through the arguments of a call: the dearest kind per level
RECURSION_DEAR = {'call-arg-user', 'nested-self', 'call-arg-builtin', 'any-all'}


def definition_recursion(ctx, res, binary=None, env=None, sanitizer=False):
    j = '2021/01/01 p\n  A  $1\n  B\n'
    limit = GUARDS.get('calc_depth_limit')
    cases = []
    for pos, defs, expr in RECURSION_SHAPES:
        # every such definition must be reported ("Value expression recurses too deeply"); while the
        # limit is 4096 the dear positions do not fit the default stack (F170), so no class is
        # expected for them until the source has a limit of at most 2048
        exp = 'error' if (limit is not None and (limit <= 2048 or pos not in RECURSION_DEAR)) else None
        dj = ''.join('define %s\n' % d for d in defs) + j
        for site in (['reg', '--amount', expr], ['bal', '--limit', '(%s) > 0' % expr], ['reg', '--format', '%%(%s)\\n' % expr],
                     ['reg', '--display-total', expr]):
            cases.append(Case('definition-recursion:' + pos, dj, site + NOW, info=dict(expect=exp, defs=defs)))
        # the same definitions written inside the expression
        inline = '; '.join(defs) + '; ' + expr
        cases.append(Case('definition-recursion:' + pos, j, ['reg', '--amount', inline] + NOW, info=dict(expect=exp, defs=defs)))
    for defs, expr in RECURSION_CONTROLS:
        dj = ''.join('define %s\n' % d for d in defs) + j
        cases.append(Case('definition', dj, ['reg', '--amount', expr] + NOW, info=dict(expect='ok')))
    # option expressions that refer to each other: every nested evaluation starts again at depth 0
    for a in (['--amount', 'total_expr', '--total', 'amount_expr'], ['--amount', 'total_expr + 1', '--total', 'amount_expr + 1'],
              ['--display-amount', 'display_total', '--display-total', 'display_amount']):
        cases.append(Case('option-expression-cycle', j, ['reg'] + a + NOW, info={}))
    for a in (['--amount', 'amount_expr'], ['--total', 'total_expr'], ['--display-total', 'display_total * 2'], ['--amount', 'amount_expr + 1']):
        cases.append(Case('option-expression-self', j, ['reg'] + a + NOW, info=dict(expect='ok')))
    run_cases(ctx, cases, 'rec', binary, env)
    # the same definitions on a stack eight times the default: there the limit is reached long before
    # the stack is, whatever a level costs, so a crash means that the recursion is not bounded at all
    # (a depth that is not handed on), not merely bounded too high for 8 MiB
    if not sanitizer:
        big = []
        for pos, defs, expr in RECURSION_SHAPES:
            dj = ''.join('define %s\n' % d for d in defs) + j
            big.append(Case('definition-recursion-on-64MiB-stack:' + pos, dj, ['reg', '--amount', expr] + NOW,
                            info=dict(expect='error' if limit is not None else None, defs=defs)))
        run_cases(ctx, big, 'recbig', binary, lib.ledger_env({'C11_STACK_KB': str(DEFAULT_STACK_KB * 8)}))
        cases += big
    for c in cases:
        res.evaluations += 1
        res.count('recursion:' + c.construct.split(':')[-1])
        add_violations(res, c, judge(c, sanitizer))
        exp = c.info.get('expect')
        if exp and not sanitizer:
            res.traces += 1
            res.nontrivial.add('rec:%s:%s' % (c.info.get('defs'), c.args[:2]))
            got = obs_class(c)
            if got != exp and got != 'timeout' and not got.startswith('signal'):
                res.disagreements.append(dict(name='C11/directed:' + c.construct, case=dict(defs=c.info.get('defs'), args=c.args[:3]), impl=got, model=exp))
            elif exp == 'error' and c.construct.startswith('definition-recursion') and got == 'error' \
                    and b'recurses too deeply' not in c.result[2] and b'recursion_depth too deep' not in c.result[2]:
                res.count('recursion:other-error')


# ------------------------------------------------------------------------------ duplicate UUIDs

def uuid_duplicates(ctx, res, binary=None, env=None, sanitizer=False):
    """transactions carrying the same `; UUID:` tag: the later one is dropped when its postings are
    equivalent to the first one's, and refused otherwise (journal.cc add_xact)"""
    rng = ctx.rng
    guard = GUARDS.get('uuid_size_test_first')
    accts = ['a', 'b', 'c', 'd', 'e', 'f', 'g', 'h']

    def xact(posts, uuid='abc', tag_on='xact'):
        lines = ['2021/01/01 x']
        if tag_on == 'xact':
            lines.append('  ; UUID: ' + uuid)
        for i, (acct, amt) in enumerate(posts):
            lines.append('  %s  %s' % (acct, amt) if amt is not None else '  ' + acct)
            if tag_on == 'post' and i == 0:
                lines.append('    ; UUID: ' + uuid)
        return '\n'.join(lines) + '\n\n'
    cases = []
    for k in (1, 2, 3, 5):
        first = [(accts[i], '1') for i in range(k)] + [(accts[k], None)]
        full = [(accts[i], '1') for i in range(k)] + [(accts[k], str(-k))]
        variants = [('equal', first, 'ok'), ('equal-explicit', full, 'ok'), ('permuted', list(reversed(first)), 'ok'),
                    ('different-amount', [(first[0][0], '2')] + first[1:], 'error'),
                    ('different-account', [('zz', '1')] + first[1:], 'error')]
        if k > 1:
            variants.append(('fewer', first[1:], 'error'))
        for extra in (1, 2, 4, 6):
            more = full + [(accts[(k + 1 + i) % 8] + 'x', '1' if i % 2 == 0 else '-1') for i in range(extra)]
            if extra % 2:
                more.append(('rest', '-1'))
            variants.append(('more-%d' % extra, more, 'error'))
        for name, second, cls in variants:
            exp = cls if (guard or not name.startswith('more')) else None
            j = xact(first) + xact(second)
            cases.append(Case('uuid-duplicate:' + name.split('-')[0], j, ['bal'] + NOW, info=dict(expect=exp, name=name)))
            cases.append(Case('uuid-duplicate:' + name.split('-')[0], j, ['print'] + NOW, info=dict(expect=exp, name=name)))
            # three copies: first, an equal one, then the variant
            cases.append(Case('uuid-duplicate:' + name.split('-')[0], xact(first) + xact(first) + xact(second), ['reg'] + NOW,
                              info=dict(expect=exp, name=name)))
            # a different UUID does not collide
            cases.append(Case('uuid-distinct', xact(first) + xact(second, uuid='other'), ['bal'] + NOW,
                              info=dict(expect='ok' if name != 'fewer' or True else None, name=name)))
    run_cases(ctx, cases, 'uuid', binary, env)
    for c in cases:
        res.evaluations += 1
        res.count('uuid:' + c.info['name'].split('-')[0])
        add_violations(res, c, judge(c, sanitizer))
        exp = c.info.get('expect')
        if exp and not sanitizer:
            res.traces += 1
            res.nontrivial.add('uuid:%s:%s' % (c.info['name'], c.args[0]))
            got = obs_class(c)
            if got != exp and got != 'timeout' and not got.startswith('signal'):
                res.disagreements.append(dict(name='C11/directed:' + c.construct, case=c.journal[:300], impl=got, model=exp))


# ------------------------------------------------------------------------------ account aliases

def alias_tables(rng, n):
    """alias tables aimed at the loop of expand_aliases: chains and cycles of length 1-4 through
    whole names and through first segments, self-aliases, keys with colons, random tables"""
    S = ['A', 'B', 'C', 'D', 'E']
    X = ['X', 'Y', 'Z', 'W']
    out = []
    for L in (1, 2, 3, 4):
        ks = S[:L]
        out.append(('chain-whole', [(ks[i], ks[i + 1] if i + 1 < L else 'T') for i in range(L)]))
        out.append(('cycle-whole', [(ks[i], ks[(i + 1) % L]) for i in range(L)]))
        out.append(('chain-first', [(ks[i], (ks[i + 1] if i + 1 < L else 'T') + ':' + X[i]) for i in range(L)]))
        out.append(('cycle-first', [(ks[i], ks[(i + 1) % L] + ':' + X[i]) for i in range(L)]))
        out.append(('cycle-mixed', [(ks[i], ks[(i + 1) % L] + (':' + X[i] if i % 2 else '')) for i in range(L)]))
        out.append(('cycle-deep-target', [(ks[i], ks[(i + 1) % L] + ':' + X[i] + ':' + X[(i + 1) % 4]) for i in range(L)]))
    out += [('self', [('A', 'A')]), ('self-first', [('A', 'A:B')]), ('self-inner', [('A', 'B:A')]), ('self-last', [('A', 'B:C:A')]),
            ('colon-key', [('A:B', 'C'), ('C', 'A:B')]), ('colon-key-first', [('A:B', 'C:X'), ('C', 'A')]),
            ('seeded-shape', [('Cash', 'Wallet:Coins'), ('Wallet', 'Cash:Purse')]),
            ('two-cycles', [('A', 'B:X'), ('B', 'A:Y'), ('C', 'D'), ('D', 'C')]),
            ('shadow', [('A', 'B'), ('A:Z', 'C'), ('B', 'A:Z')])]
    while len(out) < n:
        k = rng.choice([1, 2, 3, 4])
        keys = rng.sample(S, k)
        tbl = []
        for key in keys:
            if rng.random() < 0.15:
                key = key + ':' + rng.choice(S + X)
            t = ':'.join(rng.choice(S + X) for _ in range(rng.choice([1, 1, 2, 2, 3])))
            tbl.append((key, t))
        out.append(('random', tbl))
    return out


def aliases(ctx, res, binary=None, env=None, sanitizer=False):
    rng = ctx.rng
    cases, lines = [], []
    for kind, tbl in alias_tables(rng, ctx.scale(90, 600)):
        heads = sorted({k.split(':')[0] for k, _ in tbl})
        uses = set()
        for h in heads[:3]:
            uses |= {h, h + ':Z', 'Z:' + h, 'Z:' + h + ':Q', h + ':Z:Q'}
        for k, _ in tbl:
            uses |= {k, k + ':Z'}
        for acct in sorted(uses):
            for rec in (True, False):
                j = ''.join('alias %s=%s\n' % kt for kt in tbl) + '2020/01/01 p\n  %s  $1\n  Income:Other\n' % acct
                args = (['--recursive-aliases'] if rec else []) + ['accounts'] + NOW
                cases.append(Case('alias-expansion', j, args, info=dict(kind=kind, tbl=tbl, acct=acct, rec=rec)))
                lines.append(lib.sx(['alias', 'a%d' % len(lines), rec, [[k, t] for k, t in tbl], acct]))
    run_cases(ctx, cases, 'alias', binary, env)
    model = lib.run_model('C11', lines) if not sanitizer else [''] * len(cases)
    for case, ml in zip(cases, model):
        res.evaluations += 1
        res.count('alias:' + case.info['kind'])
        add_violations(res, case, judge(case, sanitizer))
        if sanitizer:
            continue
        res.traces += 1
        verdict = ml.split(' ', 1)[1]
        got = obs_class(case)
        if case.info['rec'] and case.info['kind'] != 'random' or verdict == 'Cycle':
            res.nontrivial.add('alias:%s:%s:%s' % (case.info['tbl'], case.info['acct'], case.info['rec']))
        if got.startswith('signal') or got == 'timeout':
            continue
        desc = dict(aliases=case.info['tbl'], account=case.info['acct'], recursive=case.info['rec'])
        if any(k == t for k, t in case.info['tbl']):
            # the alias directive itself refuses `alias A=A` (textual.cc alias_directive)
            if got != 'error' or b'Illegal alias' not in case.result[2]:
                res.disagreements.append(dict(name='C11/alias-directive', case=desc, impl=got, model='error: Illegal alias'))
        elif verdict == 'NoEnd':
            res.disagreements.append(dict(name='C11/alias-model', case=desc, impl=got, model=ml))
        elif verdict == 'Cycle':
            if got != 'error' or b'Infinite recursion on alias expansion' not in case.result[2]:
                res.disagreements.append(dict(name='C11/alias-expansion', case=desc, impl=got + ' ' + case.result[2][-80:].decode('latin-1'), model=ml))
        else:
            want = verdict.split(' ', 1)[1]
            have = [l.strip() for l in case.result[1].decode('latin-1').split('\n') if l.strip()]
            if got != 'ok' or want not in have:
                res.disagreements.append(dict(name='C11/alias-expansion', case=desc, impl='%s %s' % (got, have), model=ml))
    if len(res.samples) < 8 and cases:
        res.samples.append(dict(construct='alias-expansion', aliases=cases[40].info['tbl'], account=cases[40].info['acct'],
                                recursive=cases[40].info['rec'], impl=obs_class(cases[40]), model=model[40]))


# ------------------------------------------------------------------------------ accounts called Unknown

UNK_PAYEES = ['Grocer', 'GROCER Ltd', 'The Grocer', 'grocery store', 'Kiosk', 'kiosk 7', 'Baker', 'Bakery Store', 'X']
UNK_WORDS = ['grocer', 'Grocer', 'GROCER', 'kiosk', 'Baker', 'ery', 'store', 'Ltd', 'o', 'x', 'Grocer Ltd', 'nobody']
UNK_TARGETS = ['Expenses:Food', 'Expenses:Snacks', 'Misc:Unknown', 'Unknown', 'Expenses:Bread', 'Expenses:Unknown']
UNK_NAMES = ['Expenses:Unknown', 'Unknown', 'Expenses:Unknown', 'A:B:Unknown', 'Expenses:Unknown:Sub', 'Expenses:unknown', 'Expenses:Unknowns',
             'Expenses:Known', 'Unknown:Expenses']
UNK_VERBS = [['bal'], ['print'], ['reg', '--budget', '--monthly'], ['reg', '--forecast-while', 'd<[2021/09/01]'], ['accounts'], ['stats'],
             ['budget'], ['bal', '--flat', '--no-total'], ['csv'], ['equity'], ['reg', '--strict'], ['bal', '--pedantic'], ['payees'], ['xml']]


def unknown_journal(rng):
    """one journal of the class: `account T / payee REGEX` directives (the table), `account N`
    directives, automated and periodic transactions and dated transactions whose postings go to
    accounts called Unknown (or nearly so).
    -> (text, registrations, expected register accounts)   registration = (who, name, payee, table so far, where)"""
    lines, regs, rows = [], [], []
    table = []                      # (start, end, word, target) in file order
    rules = []                      # accounts of the automated postings read so far, with the rule's place
    def payee_directive():
        w = rng.choice(UNK_WORDS)
        st, en = rng.random() < 0.4, rng.random() < 0.25
        t = rng.choice(UNK_TARGETS)
        lines.append('account %s\n    payee %s%s%s\n' % (t, '^' if st else '', w, '$' if en else ''))
        regs.append(('nopost', t, None, list(table), 'directive'))
        table.append((st, en, w, t))
    def account_directive():
        n = rng.choice(UNK_NAMES)
        lines.append('account %s\n' % n)
        regs.append(('nopost', n, None, list(table), 'directive'))
    def rule():
        n = rng.choice(UNK_NAMES[:4] + ['Budget:Unknown', 'Budget:Other'])
        kind = rng.choice(['(%s)  $1', '(%s)  (amount * -1)', '[%s]  $1\n    [Budget:Pool]  $-1'])
        lines.append('= /^Assets:Cash$/\n    %s\n' % (kind % n))
        regs.append(('noxact', n, None, list(table), 'automated'))
        extra = []
        if 'Budget:Pool]' in kind:
            regs.append(('noxact', 'Budget:Pool', None, list(table), 'automated'))
            extra = ['Budget:Pool']
        rules.append([n] + extra)
    def periodic():
        n = rng.choice(UNK_NAMES[:5])
        lines.append('~ %s\n    %s  $50.00\n    Assets:Cash\n' % (rng.choice(['Monthly', 'Weekly', 'Yearly', 'every 2 months from 2021/01/01']), n))
        regs.append(('noxact', n, None, list(table), 'periodic'))
        regs.append(('noxact', 'Assets:Cash', None, list(table), 'periodic'))
    def dated(day):
        payee = rng.choice(UNK_PAYEES)
        n = rng.choice(UNK_NAMES)
        lines.append('2021/06/%02d %s\n    %s  $%d.00\n    Assets:Cash\n' % (day, payee, n, rng.randint(1, 40)))
        regs.append(('dated', n, payee, list(table), 'dated'))
        regs.append(('dated', 'Assets:Cash', payee, list(table), 'dated'))
        rows.append(len(regs) - 2)
        rows.append(len(regs) - 1)
        # every rule read so far matches the one posting to Assets:Cash and adds its postings,
        # registered again without a transaction, against the table as it is now
        for accts in rules:
            for a in accts:
                regs.append(('noxact', a, None, list(table), 'generated'))
                rows.append(len(regs) - 1)
    for _ in range(rng.choice([0, 1, 1, 2, 3])):
        payee_directive()
    shape = rng.random()
    steps = []
    if shape < 0.75:
        steps += ['rule'] * rng.choice([0, 1, 1, 2]) + ['periodic'] * rng.choice([0, 1, 1]) + ['account'] * rng.choice([0, 0, 1])
        rng.shuffle(steps)
    steps += ['dated'] * rng.randint(1, 3)
    if rng.random() < 0.3:
        # directives that come late: they apply to what follows only
        steps.insert(rng.randrange(len(steps) + 1), 'payee')
        steps += [rng.choice(['rule', 'periodic', 'account']), 'dated']
    day = 0
    for st in steps:
        if st == 'dated':
            day += 1
            dated(day)
        else:
            dict(rule=rule, periodic=periodic, account=account_directive, payee=payee_directive)[st]()
    return '\n'.join(lines), regs, rows


def unknown_accounts(ctx, res, binary=None, env=None, sanitizer=False):
    """journal_t::register_account, the payee look-up for accounts whose last segment is Unknown:
    every kind of registrant (account directive, posting of an automated / periodic / dated
    transaction, posting generated by an automated transaction) against tables of 0-4 entries"""
    rng = ctx.rng
    cases, lines, plans = [], [], []
    for k in range(ctx.scale(120, 800)):
        text, regs, rows = unknown_journal(rng)
        # the class names the registrants WITHOUT a transaction that meet a non-empty table at an account
        # called Unknown; failing those, whether an account directive or only dated postings do
        hit = [r for r in regs if r[3] and r[1].split(':')[-1] == 'Unknown']
        wheres = sorted({r[4] for r in hit if r[0] == 'noxact'})
        cls = '+'.join(wheres) if wheres else 'directive' if any(r[0] == 'nopost' for r in hit) else 'dated' if hit else 'no-look-up'
        first = len(lines)
        for i, (who, name, payee, table, where) in enumerate(regs):
            lines.append(lib.sx(['unknown', 'u%d.%d' % (k, i), who, name, payee.encode().hex() if payee else '-',
                                 [[st, en, w.encode().hex(), t] for st, en, w, t in table]]))
        main = Case('unknown-account-payee:' + cls, text, ['reg', '--format', '%(account)\n'] + NOW,
                    info=dict(k=k, first=first, n=len(regs), rows=rows, regs=regs, main=True))
        cases.append(main)
        for v in rng.sample(UNK_VERBS, 2):
            cases.append(Case('unknown-account-payee:' + cls, text, v + NOW, info=dict(k=k, first=first, n=len(regs), regs=regs, main=False)))
    run_cases(ctx, cases, 'unk', binary, env)
    model = lib.run_model('C11', lines) if not sanitizer else None
    for c in cases:
        res.evaluations += 1
        res.count('unknown:' + c.construct.split(':', 1)[1])
        add_violations(res, c, judge(c, sanitizer))
        if sanitizer:
            continue
        got = obs_class(c)
        ml = [l.split(' ', 1)[1] for l in model[c.info['first']:c.info['first'] + c.info['n']]]
        null = [i for i, l in enumerate(ml) if l == 'NullDeref']
        if null:
            # the model reads the null pointer for one of the registrations: no report is predicted
            if not (got.startswith('signal') or got == 'timeout'):
                res.disagreements.append(dict(name='C11/unknown-account-payee', case=c.journal[:600], impl=got, model='NullDeref at %s' % (c.info['regs'][null[0]],)))
            continue
        if got.startswith('signal') or got == 'timeout':
            res.disagreements.append(dict(name='C11/unknown-account-payee', case=c.journal[:600], impl=got, model='every registration answered'))
            continue
        if not c.info['main']:
            continue
        res.traces += 1
        if any(r[3] and r[1].split(':')[-1] == 'Unknown' for r in c.info['regs']):
            res.nontrivial.add('unknown:' + c.journal)
        want = [ml[i].split(' ', 1)[1] for i in c.info['rows']]
        have = [l.strip().strip('()[]') for l in c.result[1].decode('latin-1').split('\n') if l.strip()]
        if got != 'ok' or want != have:
            res.disagreements.append(dict(name='C11/unknown-account-payee', case=c.journal[:600], impl='%s %s' % (got, have), model=want))
    if cases and len(res.samples) < 10:
        c = cases[0]
        res.samples.append(dict(construct=c.construct, journal=c.journal[:300], impl=obs_class(c)))


# ------------------------------------------------------------------------------ control characters in names

CTL = [1, 2, 7, 8, 0x1b, 0x1f, 0x7f]


def control_names(rng, n):
    out = []
    for c in CTL:
        ch = chr(c)
        for k in (1, 2, 3, 5, 30):
            out += [ch * k + ':B', 'A' + ch * k + ':B', 'Assets:' + ch * k, 'Abcdefghij' + ch * k + ':Klmnopqrst:Uvwxyz' + ch]
    while len(out) < n:
        segs = []
        for _ in range(rng.choice([1, 2, 2, 3])):
            segs.append(''.join(chr(rng.choice(CTL)) if rng.random() < 0.5 else rng.choice('AbCxyz') for _ in range(rng.randint(1, 12))))
        out.append(':'.join(segs))
    return out


def control_characters(ctx, res, binary=None, env=None, sanitizer=False):
    """names (account, payee) that contain control characters, in the reports that fit them into a
    column: mk_wcwidth answers -1 for such a character and unistring::width adds the answers up"""
    rng = ctx.rng
    cases, lines = [], []
    for i, name in enumerate(control_names(rng, ctx.scale(200, 1200))):
        where = ('account', 'payee')[i % 2] if i >= 140 else ('account' if i % 4 != 3 else 'payee')
        w = (5, 10, 22, 40)[i % 4]
        if where == 'account':
            j = '2020/01/01 p\n    %s  10 EUR\n    C\n' % name
        else:
            j = '2020/01/01 %s\n    A:B  10 EUR\n    C\n' % name
        args = ['reg', '--account-width', str(w), '--payee-width', str(w)] + NOW
        lines.append(lib.sx(['width', 'w%d' % i, name.encode('latin-1').hex(), w]))
        cases.append(Case('control-characters-in-name:' + where, j, args, info=dict(name=name, w=w, line=len(lines) - 1)))
        v = [['bal'], ['print'], ['reg'], ['reg', '--wide'], ['bal', '--flat'], ['csv'], ['reg', '--truncate', 'leading'], ['reg', '--truncate', 'middle'],
             ['payees'], ['accounts'], ['cleared']][i % 11]
        cases.append(Case('control-characters-in-name:' + where, j, v + NOW, info=dict(name=name)))
    run_cases(ctx, cases, 'ctl', binary, env)
    model = lib.run_model('C11', lines) if not sanitizer else None
    for c in cases:
        res.evaluations += 1
        res.count(c.construct)
        add_violations(res, c, judge(c, sanitizer))
        if sanitizer or 'line' not in c.info:
            continue
        m = re.search(r'width=(\d+) cut=(\d)', model[c.info['line']])
        width, cut = int(m.group(1)), m.group(2) == '1'
        name = c.info['name']
        res.traces += 1
        res.nontrivial.add('ctl:%s:%d' % (name, c.info['w']))
        got = obs_class(c)
        if width > len(name):
            continue            # the sum has wrapped around: the offsets truncate() computes from it mean nothing
        if got != 'ok' or (not cut and name.encode('latin-1') not in c.result[1]):
            res.disagreements.append(dict(name='C11/name-width', case=dict(name=name, columns=c.info['w']), impl=got, model=model[c.info['line']]))


# ------------------------------------------------------------------------------ account functions on the root account

ACCOUNT_SCOPE_EXPRS = ['account("A")', 'account("A").total', 'account("A").amount', 'account(/A/).total', 'account(/A/).amount', 'account("A:B").total',
                       'account("Nope")', 'account("Nope").total', 'account(/Nope/).total', 'account("").total', 'account(1)', 'account()',
                       'parent', 'parent.total', 'parent.account', 'parent.parent.account', 'parent.parent.total', 'depth', 'depth_spacer',
                       'partial_account', 'partial_account(true)', 'account_base', 'note', 'addr', 'any(true)', 'all(true)', 'count', 'subcount',
                       'latest', 'earliest', 'latest_cleared', 'earliest_checkin', 'latest_checkout', 'cost', 'N', 'O', 'u', 'l', 'T', 'total', 'amount',
                       'account("A").parent.total', 'account("A").account("C").total', 'account("A").depth', 'account(account).total']


def account_scope_on_root(ctx, res, binary=None, env=None, sanitizer=False):
    """the balance report evaluates its format once more on the ROOT account (the total line), which
    has no parent and an empty name: every function of the account scope there and on ordinary accounts"""
    j = '2020/01/01 p\n    A:B  10 EUR\n    A:D  5 EUR\n    C\n'
    cases = []
    for e in ACCOUNT_SCOPE_EXPRS:
        for extra, tag in (([], 'with-total'), (['--no-total'], 'no-total'), (['--flat'], 'with-total'), (['--empty', '--depth', '1'], 'with-total')):
            cases.append(Case('account-scope-function:' + tag, j, ['bal', '--format', '%%(%s)\\n' % e] + extra + NOW, info=dict(e=e)))
        cases.append(Case('account-scope-function:with-total', j, ['bal', '--display', e] + NOW, info=dict(e=e)))
        cases.append(Case('account-scope-function:accounts', j, ['accounts', '--limit', 'true', '--display', e] + NOW, info=dict(e=e)))
        cases.append(Case('account-scope-function:with-total', j, ['budget', '--format', '%%(%s)\\n' % e] + NOW, info=dict(e=e)))
    run_cases(ctx, cases, 'ascope', binary, env)
    for c in cases:
        res.evaluations += 1
        res.count(c.construct)
        add_violations(res, c, judge(c, sanitizer))


# ------------------------------------------------------------------------------ deferred postings of rejected transactions

def deferred_postings(ctx, res, binary=None, env=None, sanitizer=False):
    """a deferred posting `<B>` is parked in its account until the end of the file; transactions that
    are refused at every stage of journal_t::add_xact, with and without such a posting"""
    ways = [
        ('accepted', '', '2021/06/01 p\n    <B>  10 EUR\n    A\n'),
        ('unbalanced', '', '2021/06/01 p\n    <B>  10 EUR\n    A  5 EUR\n'),
        ('auto-assert', '= /^A$/\n    assert false\n\n', '2021/06/01 p\n    <B>  10 EUR\n    A\n'),
        ('auto-assert-on-deferred', '= /^B$/\n    assert amount < 5\n\n', '2021/06/01 p\n    <B>  10 EUR\n    A\n'),
        ('auto-check', '= /^A$/\n    check false\n\n', '2021/06/01 p\n    <B>  10 EUR\n    A\n'),
        ('uuid-mismatch', '2021/05/01 q\n    ; UUID: u1\n    B  10 EUR\n    A\n\n', '2021/06/01 p\n    ; UUID: u1\n    <B>  11 EUR\n    A\n'),
        ('uuid-equal', '2021/05/01 q\n    ; UUID: u1\n    B  10 EUR\n    A\n\n', '2021/06/01 p\n    ; UUID: u1\n    <B>  10 EUR\n    A\n'),
        ('uuid-both-deferred', '2021/05/01 q\n    ; UUID: u1\n    <B>  10 EUR\n    A\n\n', '2021/06/01 p\n    ; UUID: u1\n    <B>  12 EUR\n    A\n'),
        ('tag-assert', 'tag Foo\n    assert value =~ /x/\n\n', '2021/06/01 p\n    ; Foo: bar\n    <B>  10 EUR\n    A\n'),
        ('post-tag-assert', 'tag Foo\n    assert value =~ /x/\n\n', '2021/06/01 p\n    <B>  10 EUR\n    ; Foo: bar\n    A\n'),
        ('balance-assertion', '', '2021/06/01 p\n    <B>  10 EUR\n    A  -10 EUR = 3 EUR\n'),
        ('auto-generated-deferred', '= /^A$/\n    <G>  1 EUR\n    H  -1 EUR\n    assert false\n\n', '2021/06/01 p\n    B  10 EUR\n    A\n'),
        ('two-deferred', '= /^A$/\n    assert false\n\n', '2021/06/01 p\n    <B>  10 EUR\n    <B:C>  2 EUR\n    A\n'),
    ]
    tails = ['', '\n2021/07/01 later\n    B  1 EUR\n    A\n', '\n2021/07/01 later\n    <B>  1 EUR\n    A\n']
    cases = []
    for how, head, x in ways:
        for ti, tail in enumerate(tails):
            for v in (['bal'], ['reg'], ['print'], ['bal', '--pedantic'], ['stats']):
                cases.append(Case('deferred-posting:' + how, head + x + tail, v + NOW, info=dict(how=how)))
        # the same transaction without the deferral: the control
        cases.append(Case('deferred-posting-control:' + how, head + x.replace('<B>', 'B').replace('<B:C>', 'B:C').replace('<G>', 'G') + tails[1], ['bal'] + NOW, info=dict(how=how)))
    run_cases(ctx, cases, 'defer', binary, env)
    for c in cases:
        res.evaluations += 1
        res.count(c.construct.split(':')[0])
        add_violations(res, c, judge(c, sanitizer))


# ------------------------------------------------------------------------------ date formats longer than the buffer

def long_date_formats(ctx, res, binary=None, env=None, sanitizer=False):
    """--date-format / --datetime-format / format_date(d, FMT) whose result is around and beyond the 127
    characters temporal_io_t::format has room for: the date text is what strftime defines for the
    format, or the run ends with an error"""
    d = datetime.date(2020, 3, 7)
    j = '2020/03/07 p\n    A  10 EUR\n    C\n'
    fmts = []
    for unit, size in (('%Y', 4), ('%Y-%m-%d ', 11), ('%A, %d %B %Y; ', None), ('x', 1), ('%%', 1)):
        for total in (120, 124, 126, 127, 128, 129, 132, 256, 1000):
            k = max(1, total // (size or 20))
            fmts.append(unit * k)
    cases = []
    for f in fmts:
        want = d.strftime(f)
        cases.append(Case('long-date-format:option', j, ['reg', '--date-format', f, '--format', '%(format_date(date))\\n'] + NOW, info=dict(want=want)))
        if '"' not in f:
            cases.append(Case('long-date-format:function', j, ['reg', '--format', '%%(format_date(date, "%s"))\\n' % f] + NOW, info=dict(want=want)))
    run_cases(ctx, cases, 'datefmt', binary, env)
    for c in cases:
        res.evaluations += 1
        res.count('long-date-format')
        vs = judge(c, sanitizer)
        if not vs and obs_class(c) == 'ok':
            rows = c.result[1].decode('latin-1').rstrip('\n').split('\n')         # one row per posting, the same date on each
            have = rows[0] if all(r == rows[0] for r in rows) else '\n'.join(rows)
            if have != c.info['want']:
                vs.append(('date-text-not-strftime:' + c.construct, 'the date printed is not what strftime gives for the format (%d characters expected)' % len(c.info['want']),
                           have[:200], c.info['want'][:200] + ' - or an error'))
        add_violations(res, c, vs)


# ------------------------------------------------------------------------------ mutation stream

_CORPUS = None


def corpus():
    global _CORPUS
    if _CORPUS is not None:
        return _CORPUS
    out = []
    for pat in ('test/baseline/*.test', 'test/regress/*.test'):
        for p in sorted(glob.glob(os.path.join(lib.REPO, pat))):
            try:
                raw = open(p, 'rb').read()
            except OSError:
                continue
            lines = raw.split(b'\n')
            j = []
            for l in lines:
                if l.startswith(b'test '):
                    break
                j.append(l)
            body = b'\n'.join(j).strip(b'\n')
            if body:
                out.append((os.path.relpath(p, lib.REPO), body + b'\n'))
    for p in sorted(glob.glob(os.path.join(lib.REPO, 'test/input/*.dat'))):
        try:
            raw = open(p, 'rb').read()
        except OSError:
            continue
        if len(raw) < 200000:
            out.append((os.path.relpath(p, lib.REPO), raw))
    _CORPUS = out
    return out


INTERESTING = [b'\x00', b'\xff', b'(', b')', b'[', b']', b'{', b'}', b'"', b"'", b'@', b'=', b';', b'\\', b'\t', b' ', b'  ', b'-', b'0', b'9',
               b':', b'/', b'*', b'!', b'~', b'%', b'$', b',', b'.', b'\r', b'\xef\xbb\xbf', b'\xc3\xa9', b'<', b'>', b'|', b'&', b'^', b'?']
LONG_LENGTHS = [127, 128, 129, 254, 255, 256, 257, 300, 1023, 1024, 4094, 4095, 4096, 4097, 5000, 8191, 8192, 8193, 20000]
NUMBERS = [b'0', b'00', b'-0', b'0.0', b'1e5', b'99999999999999999999999999', b'-1', b'1/0', b'0/0', b'.', b',', b'1,', b'1.', b'1..2', b'1,,2',
           b'0.000000000000000000000000000000000001', b'1' * 300, b'32768', b'65536', b'2147483648', b'9223372036854775808']
VERBS = [['bal'], ['balance'], ['reg'], ['register'], ['print'], ['csv'], ['xml'], ['emacs'], ['equity'], ['stats'], ['prices'], ['pricedb'],
         ['accounts'], ['payees'], ['commodities'], ['tags'], ['cleared'], ['budget'], ['pricemap'], ['select', 'date,payee,amount from posts'],
         ['entry', '2021/01/01', 'p', '$10'], ['xact', 'p'], ['draft', 'A', '10'], ['org'], ['lisp'], ['convert', '/dev/null'], ['source']]
OPTS = [[], [], [], ['-p', 'monthly'], ['--period', 'every 2 weeks'], ['-p', 'this year'], ['--period', 'quarterly from 2010'], ['-l', 'amount>0'],
        ['--limit', 'account=~/a/'], ['--display', 'total<100'], ['--format', '%(account) %(amount) %(total)\n'], ['--format', '%-20P %12t %T|%D %n\n'],
        ['-X', '$'], ['-X', 'EUR'], ['-B'], ['-V'], ['-G'], ['-O'], ['-I'], ['--sort', 'amount'], ['-S', 'date'], ['-S', '-payee'], ['--collapse'],
        ['--subtotal'], ['-M'], ['-W'], ['-Y'], ['-D'], ['--daily'], ['--weekly'], ['-E'], ['--flat'], ['--depth', '2'], ['--unround'], ['--lots'],
        ['--lot-prices'], ['--strict'], ['--pedantic'], ['--explicit'], ['-C'], ['-U'], ['-R'], ['--related'], ['--invert'], ['-A'], ['--deviation'],
        ['-%'], ['--pivot', 'tag'], ['--by-payee'], ['--dow'], ['--head', '3'], ['--tail', '3'], ['--exchange', 'EUR,$'], ['--budget'], ['--add-budget'],
        ['--forecast-while', 'd<[2022]'], ['--forecast-years', '1'], ['--anon'], ['--wide'], ['--columns', '40'], ['--date', 'aux_date'], ['--effective'],
        ['--begin', '2010/01/01'], ['--end', '2020/01/01'], ['-b', 'last month'], ['--now', '2012/01/01'], ['--base'], ['--price'], ['--gain'],
        ['--revalued'], ['--historical'], ['--no-rounding'], ['--equity'], ['--group-by', 'payee'], ['--payee', 'account'], ['--account', 'payee'],
        ['--date-format', '%Y'], ['--amount', 'amount*2'], ['--total', 'total/2'], ['--prepend-format', '%(date) '], ['--meta', 'x'], ['--raw'],
        ['--decimal-comma'], ['--time-colon'], ['--day-break'], ['--primary-date'], ['--permissive'], ['--no-total'], ['--percent'], ['--cleared-format', '%(total)\n'],
        ['--truncate', 'leading'], ['--abbrev-len', '1'], ['--account-width', '0'], ['--amount-width', '1'], ['--inject', 'x'], ['--rich-data'], ['--count'],
        ['--recursive-aliases'], ['--no-aliases'], ['--value-expr', 'amount'], ['--check-payees'], ['--immediate'], ['--unrealized'], ['--generated'],
        ['--seed', '1'], ['--values'], ['--aux-date'], ['--average-lot-prices'], ['--pending'], ['--actual'], ['--real'], ['--empty', '--collapse-if-zero'],
        ['^Assets'], ['@x'], ['%tag'], ['expr', 'true'], ['not', 'a'], ['a', 'and', '(', 'b', 'or', 'c', ')'], ['=x'], ['#1'], ['/[/']]


OPT_WITH_ARG = {o[0] for o in OPTS if len(o) == 2 and o[0].startswith('-')}


def mutate(rng, data):
    lines = data.split(b'\n')
    op = rng.randrange(12)
    if op == 0 and data:                      # replace bytes
        b = bytearray(data)
        for _ in range(rng.choice([1, 1, 2, 4, 8])):
            i = rng.randrange(len(b))
            b[i:i + 1] = rng.choice(INTERESTING) if rng.random() < 0.7 else bytes([rng.randrange(256)])
        return bytes(b)
    if op == 1 and data:                      # delete a span
        i = rng.randrange(len(data))
        return data[:i] + data[i + rng.choice([1, 1, 2, 5, 20, 100]):]
    if op == 2 and lines:                     # duplicate a line (or a block)
        i = rng.randrange(len(lines))
        k = rng.choice([1, 1, 2, 4])
        return b'\n'.join(lines[:i + k] + lines[i:i + k] * rng.choice([1, 1, 3, 50]) + lines[i + k:])
    if op == 3 and data:                      # truncate the file
        return data[:rng.randrange(len(data))]
    if op == 4 and lines:                     # truncate a line
        i = rng.randrange(len(lines))
        l = lines[i]
        lines[i] = l[:rng.randrange(len(l))] if l else l
        return b'\n'.join(lines)
    if op == 5 and lines:                     # insert a long token
        i = rng.randrange(len(lines))
        l = lines[i]
        n = rng.choice(LONG_LENGTHS)
        tok = rng.choice([b'a', b'1', b'A', b'x', b' ', b'0', b'9', b'.', b'Z']) * n
        tok = tok[:n]
        pos = rng.choice([0, len(l)] + [m.start() for m in re.finditer(rb'[ \t;:@={}()\[\]"]', l)][:20] or [0])
        wrap = rng.choice([(b'', b''), (b'"', b'"'), (b'[', b']'), (b'{', b'}'), (b'(', b')'), (b'((', b'))'), (b'; ', b''), (b'; [', b']'),
                           (b'; :', b':'), (b' @ ', b''), (b' = ', b''), (b"'", b"'"), (b'/', b'/')])
        lines[i] = l[:pos] + wrap[0] + tok + wrap[1] + l[pos:]
        return b'\n'.join(lines)
    if op == 6 and len(lines) > 1:            # swap two lines
        i, j = rng.randrange(len(lines)), rng.randrange(len(lines))
        lines[i], lines[j] = lines[j], lines[i]
        return b'\n'.join(lines)
    if op == 7:                               # insert a truncated directive
        i = rng.randrange(len(lines) + 1)
        t = rng.choice(TRUNCATED).encode('latin-1')
        return b'\n'.join(lines[:i] + [t] + lines[i:])
    if op == 8:                               # replace a number
        ms = list(re.finditer(rb'-?\d[\d,.]*', data))
        if ms:
            m = rng.choice(ms)
            return data[:m.start()] + rng.choice(NUMBERS) + data[m.end():]
    if op == 9 and lines:                     # delete a line
        i = rng.randrange(len(lines))
        return b'\n'.join(lines[:i] + lines[i + 1:])
    if op == 10 and lines:                    # change indentation / separators
        i = rng.randrange(len(lines))
        l = lines[i]
        lines[i] = rng.choice([l.lstrip(), b' ' + l, b'\t' + l, l.replace(b'  ', b' ', 1), l.replace(b'  ', b'\t', 1), l + b' ' * 5, l + b'\r'])
        return b'\n'.join(lines)
    if op == 11 and data:                     # splice another corpus file in
        other = rng.choice(corpus())[1]
        i = rng.randrange(len(data))
        j = rng.randrange(len(other))
        return data[:i] + other[j:j + rng.choice([10, 100, 1000])] + data[i:]
    return data


def line_kind(journal):
    for l in journal.split(b'\n'):
        if not l.strip():
            continue
        c = l[:1]
        if c.isdigit():
            return 'xact'
        if c in b' \t':
            return 'posting'
        if c in b';#%|*':
            return 'comment'
        w = re.match(rb'[!@]?([A-Za-z]+|[=~\-])', l)
        return 'directive-' + (w.group(1).decode() if w else 'other')
    return 'empty'


def symptom(case, sanitizer=False):
    """what is kept while reducing: the class of the first violation (without the construct)"""
    vs = judge(case, sanitizer)
    if not vs:
        return None
    k = vs[-1][0] if sanitizer and vs[-1][0].startswith('sanitizer:') else vs[0][0]
    parts = k.split(':')
    return ':'.join(parts[:2]) if parts[0] in ('signal', 'sanitizer') else parts[0]


def reduce_case(ctx, case, want, budget=40, binary=None, env=None, sanitizer=False):
    """line-based reduction of the journal, then of the options, keeping the same symptom"""
    global TIMEOUT
    if case.journal is None:
        return
    saved = TIMEOUT
    if want == 'timeout':
        TIMEOUT, budget = (3 if sanitizer else 0.7), 10
    try:
        j = case.journal if isinstance(case.journal, bytes) else case.journal.encode('latin-1')
        lines = j.split(b'\n')
        args = list(case.args)

        def still(lines_, args_):
            c2 = Case(case.construct, b'\n'.join(lines_), args_, case.stdin, files=case.files, repl=case.repl)
            run_cases(ctx, [c2], 'red', binary, env, confirm=False)
            return symptom(c2, sanitizer) == want
        used = 0
        # options first (cheap, and they name the construct)
        i = 1
        while i < len(args) and used < budget:
            if args[i].startswith('-') and args[i] != '--now':
                k = 2 if (i + 1 < len(args) and not args[i + 1].startswith('-') and args[i] in OPT_WITH_ARG) else 1
                cand = args[:i] + args[i + k:]
                used += 1
                if still(lines, cand):
                    args = cand
                    continue
            i += 1
        chunk = max(1, len(lines) // 2)
        while chunk >= 1 and used < budget:
            i = 0
            progressed = False
            while i < len(lines) and used < budget:
                cand = lines[:i] + lines[i + chunk:]
                used += 1
                if cand and still(cand, args):
                    lines = cand
                    progressed = True
                else:
                    i += chunk
            if chunk == 1 and not progressed:
                break
            chunk = chunk // 2 if chunk > 1 else (1 if progressed else 0)
        case.journal = b'\n'.join(lines)
        case.args = args
    finally:
        TIMEOUT = saved


FRAME_RE = re.compile(r'(?:in |^#\d+\s+)((?:ledger::)[^\n(<]*(?:<[^\n]*?>)?[\w:~]*(?:\(anonymous namespace\)::[\w:~]+)?)')


def norm_frame(f):
    f = re.sub(r'<[^<>]*>', '', f)
    f = re.sub(r'<[^<>]*>', '', f)
    f = f.replace('(anonymous namespace)::', '').strip()
    f = re.sub(r'\s+', '', f)
    return f[:80]


def frames_of(text):
    """names of the stack frames (innermost first) whose function is in namespace ledger"""
    out = []
    for line in text.split('\n'):
        m = re.match(r'\s*#\d+\s+(?:0x[0-9a-f]+ in )?(.*)', line)
        if not m:
            continue
        body = m.group(1).replace('(anonymous namespace)', '@anon@')
        if not (body.startswith('ledger::') or body.startswith('@anon@')):
            continue
        body = body.split('(')[0].split(' ')[0].replace('@anon@', '(anonymous namespace)')
        out.append(norm_frame(body))
    return out


def locate(ctx, case, binary, env, want):
    """innermost ledger:: function of a crash (gdb backtrace) or of a hang (attach after 1 s);
    None when gdb is not available"""
    gdb = shutil.which('gdb')
    if not gdb:
        return None
    binary = binary or lib.ledger_bin()
    env = env or lib.ledger_env()
    args, d = materialise(ctx, case, 'loc')
    cmd = [binary, '--init-file', '/dev/null'] + args
    try:
        if want == 'timeout':
            p = subprocess.Popen(cmd, stdin=subprocess.PIPE, stdout=subprocess.DEVNULL, stderr=subprocess.DEVNULL, env=env, cwd=d)
            try:
                if case.stdin:
                    p.stdin.write(case.stdin)
                p.stdin.close()
            except OSError:
                pass
            time.sleep(1.0)
            if p.poll() is not None:
                return None
            # two samples: the deepest frame common to both stacks is the function that loops
            rc, out1 = lib.sh([gdb, '-p', str(p.pid), '-batch', '-ex', 'bt 60'], timeout=30)
            time.sleep(0.3)
            rc, out2 = lib.sh([gdb, '-p', str(p.pid), '-batch', '-ex', 'bt 60'], timeout=30)
            p.kill()
            p.wait()
            a, b = frames_of(out1)[::-1], frames_of(out2)[::-1]
            common = None
            for x, y in zip(a, b):
                if x != y:
                    break
                common = x
            return common
        else:
            rc, out = lib.sh([gdb, '-batch', '-ex', 'run', '-ex', 'bt 300', '--args'] + cmd,
                             timeout=60, env=env, cwd=d, input=case.stdin or b'')
            out = out[-200000:]
        fr = frames_of(out)
        if not fr:
            return None
        if len(fr) >= 250:
            # stack exhaustion: name the recursion by the alphabetically first function of the cycle,
            # whichever member of it happened to hit the guard page
            top = fr[:60]
            rep = sorted(f for f in set(top) if top.count(f) >= 2)
            if rep:
                return 'recursion:' + rep[0]
        return fr[0]
    except Exception as e:      # attribution is best effort
        lib.log('C11: locate failed: %r' % (e,))
        return None
    finally:
        shutil.rmtree(d, ignore_errors=True)


def c_rerun(ctx, c, binary, env):
    run_cases(ctx, [c], 'rerun', binary, env)
    return c


def mutation(ctx, res, n, binary=None, env=None, sanitizer=False, tag='mut'):
    rng = ctx.rng
    cp = corpus()
    res.extra.setdefault('corpus_files', len(cp))
    cases = []
    for i in range(n):
        name, data = rng.choice(cp)
        k = rng.choice([0, 1, 1, 1, 2, 3])
        kinds = []
        for _ in range(k):
            data = mutate(rng, data)
        verb = rng.choice(VERBS)
        opts = []
        for _ in range(rng.choice([0, 1, 1, 2, 3])):
            opts += rng.choice(OPTS)
        args = verb + opts
        if '--now' not in args:
            args = args + NOW
        cases.append(Case('mutant:%s' % verb[0], data, args, info=dict(base=name, k=k)))
    run_cases(ctx, cases, tag, binary, env)
    hist = {}
    for c in cases:
        res.evaluations += 1
        oc = obs_class(c)
        hist[oc.split(':')[0]] = hist.get(oc.split(':')[0], 0) + 1
        vs = judge(c, sanitizer)
        if vs:
            # attribute the symptom to a construct: reduce the journal, key by what is left
            want = symptom(c, sanitizer)
            if want and want != 'error-with-status-0':
                reduce_case(ctx, c, want, binary=binary, env=env, sanitizer=sanitizer)
                if want != 'timeout':
                    vs = judge(c_rerun(ctx, c, binary, env), sanitizer) or vs
            loc = None
            if want and (want.startswith('signal') or want == 'timeout'):
                loc = locate(ctx, c, binary, env, want)
            elif want and want.startswith('sanitizer'):
                fr = frames_of(c.result[2].decode('latin-1'))
                loc = fr[0] if fr else None
            if loc:
                # the xact/entry/draft commands run on a destroyed parse context (F46): a use after
                # free surfaces in a different function from run to run, so the verb names the construct
                where = ('xact-command:at:' if c.args and c.args[0] in ('xact', 'entry', 'draft') else 'at:') + loc.replace('\\', '')
                vs = [(re.sub(r'mutant:(\w+)$', 'mutant:' + where, k), d + ' in ' + loc, o, r) for k, d, o, r in vs]
            else:
                kind = line_kind(c.journal if isinstance(c.journal, bytes) else (c.journal or '').encode('latin-1'))
                optsig = '+'.join(sorted(set(a for a in c.args[1:] if a.startswith('-') and a != '--now'))) or 'no-options'
                vs = [(re.sub(r'mutant:(\w+)$', lambda m_: 'mutant:%s:%s:%s' % (m_.group(1), kind, optsig), k), d, o, r) for k, d, o, r in vs]
            add_violations(res, c, vs)
    for k, v in hist.items():
        res.count('mutant-outcome:' + k, v)
    res.count('mutants', n)
    return cases


# ------------------------------------------------------------------------------ sanitizer build (thorough)

def asan_build(ctx):
    """ASan+UBSan ledger from the same tree into ctx.workdir/asan; returns the binary or None"""
    pre = os.environ.get('VERIF_C11_ASAN_BUILD')          # development aid: an already built tree
    if pre and os.path.exists(os.path.join(pre, 'ledger')):
        return os.path.join(pre, 'ledger'), False
    b = os.path.join(ctx.workdir, 'asan')
    shutil.rmtree(b, ignore_errors=True)
    os.makedirs(b)
    flags = '-fsanitize=address,undefined -fno-sanitize-recover=all -Wno-error -D%s -O1' % lib.GUARD
    rc, out = lib.sh(['cmake', '-G', 'Ninja', '-S', lib.REPO, '-B', b, '-DCMAKE_BUILD_TYPE=Release', '-DCMAKE_CXX_FLAGS=' + flags,
                      '-DCMAKE_CXX_FLAGS_RELEASE=-DNDEBUG', '-DBUILD_LIBRARY=ON', '-DBUILD_DOCS=OFF', '-DUSE_PYTHON=OFF', '-DUSE_GPGME=OFF'], timeout=600)
    if rc != 0:
        lib.log('C11: sanitizer configure failed:\n' + out[-1500:])
        return None, True
    rc, out = lib.sh(['ninja', '-C', b, '-j', str(lib.NCPU), 'ledger'], timeout=3000)
    if rc != 0:
        lib.log('C11: sanitizer build failed:\n' + out[-1500:])
        return None, True
    return os.path.join(b, 'ledger'), True


def sanitizer_tier(ctx, res, sites):
    t0 = time.time()
    binary, owned = asan_build(ctx)
    if not binary:
        res.notes.append('sanitizer build failed; sanitizer observations were not made')
        res.disagreements.append(dict(name='C11/sanitizer-build', case=None, impl='build failed', model=None))
        return
    res.extra['sanitizer_build_s'] = round(time.time() - t0, 1)
    env = lib.ledger_env({'C11_STACK_KB': str(DEFAULT_STACK_KB * ASAN_STACK_FACTOR),
                          'ASAN_OPTIONS': 'detect_leaks=0:abort_on_error=0:allocator_may_return_null=1:detect_stack_use_after_return=0',
                          'UBSAN_OPTIONS': 'print_stacktrace=1:halt_on_error=1'})
    sub = lib.Result()
    try:
        buffers(ctx, sub, sites, binary, env, sanitizer=True, compare=False)
        truncated(ctx, sub, binary, env, sanitizer=True)
        long_tokens(ctx, sub, binary, env, sanitizer=True)
        formats(ctx, sub, binary, env, sanitizer=True)
        aliases(ctx, sub, binary, env, sanitizer=True)
        uuid_duplicates(ctx, sub, binary, env, sanitizer=True)
        definition_recursion(ctx, sub, binary, env, sanitizer=True)
        option_values(ctx, sub, binary, env, sanitizer=True)
        query_keywords(ctx, sub, binary, env, sanitizer=True)
        rule_predicates(ctx, sub, binary, env, sanitizer=True)
        commodity_values(ctx, sub, binary, env, sanitizer=True)
        early_options(ctx, sub, binary, env, sanitizer=True)
        periods_s = lib.Result()
        nesting_light(ctx, sub, binary, env)
        mutation(ctx, sub, ctx.scale(0, 400), binary, env, sanitizer=True, tag="smut")
    finally:
        if owned:
            shutil.rmtree(os.path.join(ctx.workdir, 'asan'), ignore_errors=True)
    res.violations += sub.violations
    res.evaluations += sub.evaluations
    res.count('sanitizer-runs', sub.evaluations)
    res.extra['sanitizer_wall_s'] = round(time.time() - t0, 1)
    res.extra['sanitizer_reports_excluded'] = dict(EXCLUDED)
    if EXCLUDED:
        res.notes.append('UBSan reports of long overflow inside INTEGER values (value.cc), excluded by DESIGN.md section 12: %s' % dict(EXCLUDED))


def nesting_light(ctx, res, binary, env):
    cases = [Case('expr-nesting', None, ['eval', '(' * d + '1' + ')' * d]) for d in (1, 10, 100)]
    cases += [Case('division', None, ['eval', e]) for e in ('to_int(1)/to_int(0)', '1/0', '$1/$0', '($1 + 1 EUR)/0', '1/(1-1)', '0/0',
                                                             'to_int(7)/3.0', '$5/($1/300)', '-(1/0)', 'abs(1/0)')]
    cases += [Case('period-expression', '2020/03/17 p\n  A  $1\n  B\n', ['reg', '--period', pe])
              for pe in ('every 0 days', 'every 0 weeks', 'every 65535 days', 'every 65536 days', 'every 3 days from 2020/01/01', 'every 2 weeks')]
    run_cases(ctx, cases, 'snest', binary, env)
    for c in cases:
        res.evaluations += 1
        add_violations(res, c, judge(c, True))


# ------------------------------------------------------------------------------ entry points

GUARDS = {}


def scan_sites():
    sites, consts, flags = c11_buffers.scan(lib.REPO)
    GUARDS.clear()
    GUARDS.update(c11_buffers.scan_guards(lib.REPO, consts, flags))
    return sites


def run(ctx, light=False):
    res = lib.Result()
    res.rule = ('boundary inputs for every fixed-buffer site of the regenerated list (lengths constant-2..constant+2 of each capacity and bound, '
                'placed in the construct that reaches the site), nesting depths 10^(k/2), every zero-divisor cell of value division, `every N <unit>` '
                'periods with N in {0,1,..,65535,65536,...}, READ_INTO escape strings, every truncated directive, long tokens, and a mutation stream over '
                'the test journals; non-trivial = within 2 of a site constant / contains a parenthesis / divides by an exact zero / contains a backslash / '
                'a boundary or day-unit period; distinct by construct and input')
    sites = scan_sites()
    res.extra['sites'] = len(sites)
    res.extra['site_kinds'] = {}
    for s in sites:
        res.extra['site_kinds'][s.kind] = res.extra['site_kinds'].get(s.kind, 0) + 1
    g = lib.run_model('C11', ['(guards g)'])[0]
    m = re.search(r'nsites=(\d+)', g)
    if not m or int(m.group(1)) != len(sites):
        res.disagreements.append(dict(name='C11/site-table', case='count', impl=len(sites), model=g))
    res.extra['guards'] = g
    phases = [('buffers', lambda: buffers(ctx, res, sites)), ('escapes', lambda: escapes(ctx, res)),
              ('nesting', lambda: nesting(ctx, res)), ('division', lambda: division(ctx, res)),
              ('periods', lambda: periods(ctx, res)), ('truncated', lambda: truncated(ctx, res)),
              ('long_tokens', lambda: long_tokens(ctx, res)), ('formats', lambda: formats(ctx, res)), ('aliases', lambda: aliases(ctx, res)), ('unknown_accounts', lambda: unknown_accounts(ctx, res)), ('control_characters', lambda: control_characters(ctx, res)), ('account_scope_on_root', lambda: account_scope_on_root(ctx, res)), ('deferred_postings', lambda: deferred_postings(ctx, res)), ('long_date_formats', lambda: long_date_formats(ctx, res)), ('uuid_duplicates', lambda: uuid_duplicates(ctx, res)), ('definition_recursion', lambda: definition_recursion(ctx, res)), ('option_values', lambda: option_values(ctx, res)),
              ('query_keywords', lambda: query_keywords(ctx, res)), ('rule_predicates', lambda: rule_predicates(ctx, res)),
              ('commodity_values', lambda: commodity_values(ctx, res)), ('repetition', lambda: repetition(ctx, res)), ('early_options', lambda: early_options(ctx, res)),
              ('function_arguments', lambda: function_arguments(ctx, res)),
              ('mutation', lambda: mutation(ctx, res, ctx.scale(8000, 16000)))]
    if ctx.tier == 'thorough' and not light:
        phases.append(('sanitizer', lambda: sanitizer_tier(ctx, res, sites)))
    res.extra['phase_wall_s'] = {}
    for name, f in phases:
        t0 = time.time()
        f()
        res.extra['phase_wall_s'][name] = round(time.time() - t0, 1)
    lib.log('C11 phases: %s' % res.extra['phase_wall_s'])
    shutil.rmtree(os.path.join(ctx.workdir, 'cases'), ignore_errors=True)
    return res


def search(ctx, broken):
    """a theorem or the correspondence no longer checks: look for a concrete failing input with
    more mutants and other seeds (oracle only)"""
    for s in range(3):
        ctx.rng = random.Random('C11-search-%d-%d' % (ctx.seed, s))
        r = lib.Result()
        sites = scan_sites()
        buffers(ctx, r, sites, compare=False)
        long_tokens(ctx, r)
        formats(ctx, r)
        aliases(ctx, r)
        unknown_accounts(ctx, r)
        control_characters(ctx, r)
        account_scope_on_root(ctx, r)
        deferred_postings(ctx, r)
        long_date_formats(ctx, r)
        uuid_duplicates(ctx, r)
        definition_recursion(ctx, r)
        option_values(ctx, r)
        query_keywords(ctx, r)
        rule_predicates(ctx, r)
        commodity_values(ctx, r)
        repetition(ctx, r)
        early_options(ctx, r)
        function_arguments(ctx, r)
        mutation(ctx, r, 6000, tag='srch')
        known = [k for k in lib.load_known_findings() if k['prop'] == 'C11']
        new = [v for v in r.violations if not any(re.fullmatch(k['match'], v['key']) for k in known)]
        if new:
            return new
    return []


def replay(ctx, obj):
    res = lib.Result()
    case = obj.get('case') or {}
    j = case.get('journal')
    c = Case(case.get('construct', 'replay'), j.encode('latin-1') if j is not None else None, case.get('args', []),
             stdin=(case['stdin'].encode('latin-1') if case.get('stdin') else None),
             files={k: v.encode('latin-1') for k, v in (case.get('files') or {}).items()}, repl=case.get('repl', False))
    run_cases(ctx, [c], 'replay')
    st, out, err = c.result
    print('replay: %s %s -> status %s; stderr: %s' % (c.construct, ' '.join(a[:60] for a in c.args), st, err[:200].decode('latin-1')))
    for key, desc, o, r in judge(c):
        res.violations.append(dict(key=key, desc=desc))
    return res
