"""C02 - an elided amount is inferred as the exact negation of the rest.
Correspondence: the finalize model (Model/Xact.v, shared with C01) against ledger on transactions with
one amount-less posting in every position, costs, virtual postings, several commodities, with and
without a bucket (`A` directive), two elided amounts, a lone posting.
Oracle (property text, Fractions): the elided posting's account receives exactly minus the per-commodity
sum of the other balancing postings (cost commodity where a cost is given), one row per commodity, all
other rows unchanged; a single posting is balanced against the bucket; two elided amounts are an error."""
import re
from fractions import Fraction as F
import lib
import xactlib as X

META = dict(
    id='C02',
    level='proof',
    technique='Coq proof about the null-posting fill of the finalize model (negated exact per-commodity sums, one generated posting per further commodity in commodity order, independent of hash order; two nulls rejected; bucket) + differential correspondence against ledger',
    level_text='Theorems in coq/Properties/Properties_C02.v: the amounts given to an elided posting are the exact negations of the balance entries, per commodity; the generated postings do not depend on the order of the balance representation; two elided amounts are rejected; a lone posting is balanced against the bucket. The model is the same transcription of xact_base_t::finalize as C01 and is compared with ledger per transaction (acceptance, error class) and per posting (account, exact amount, cost, calculated/generated flags, row order).',
    level_note='As C01. The order of generated postings for annotated lots of the same base commodity (compare_by_commodity on price/date/tag) is modelled by the whole commodity key and is exercised only with distinct base symbols.',
    design_ref='DESIGN.md section 7 C02',
    assumptions=['as C01'],
)


def gen_null_xact(rng):
    """one elided posting at a random position among 1-6 others over 1-4 commodities"""
    if rng.random() < 0.06:
        return X.gen_plain(rng, elide=True)
    if rng.random() < 0.06:
        return X.gen_virtual_lot(rng, elide=True)
    if rng.random() < 0.07:
        # every commodity cancels exactly, the postings interleaved (a swap): the balance holds only exact-zero entries
        # and the elided amount is 0
        syms = rng.sample(list(X.COMMS), rng.choice([2, 2, 3]))
        amts = [X.Amt.rand(rng, s_) for s_ in syms]
        posts = [X.Post(X.acct_of(rng, 'R'), 'R', a) for a in amts] + [X.Post(X.acct_of(rng, 'R'), 'R', a.neg()) for a in amts]
        if rng.random() < 0.3:
            rng.shuffle(posts)
        posts.insert(rng.randrange(0, len(posts) + 1), X.Post('Null:' + X.acct_of(rng, 'R'), 'R', None))
        return X.Xact(posts)
    nother = rng.randrange(1, 7)
    syms = rng.sample(list(X.COMMS), rng.choice([1, 1, 2, 2, 3, 4]))
    posts = []
    for k in range(nother):
        s = syms[k % len(syms)] if k < len(syms) else rng.choice(syms)
        kd = X.kind_of(rng)
        a = X.Amt.rand(rng, s)
        if rng.random() < 0.4:
            a = a.neg()
        cost = None
        if rng.random() < 0.25:
            y = rng.choice([c for c in X.COMMS if c != s])
            dec = rng.choice([2, 3, 4])
            if rng.random() < 0.5:
                cost = ('u', X.Amt(F(rng.randrange(1, 99999), 10 ** dec), dec, y))
            else:
                cost = ('t', X.Amt(F(rng.randrange(1, 9999999), 10 ** dec), dec, y))
        posts.append(X.Post(X.acct_of(rng, kd), kd, a, cost, vcost=(cost is not None and rng.random() < 0.3)))
    if rng.random() < 0.15 and len(posts) >= 2:
        # make one commodity cancel exactly: its zero entry stays in the balance
        p = next((q for q in posts if q.cost is None and q.must_balance()), None)
        if p:
            posts.append(X.Post(X.acct_of(rng, p.kind), p.kind, p.amt.neg()))
    nk = 'B' if rng.random() < 0.1 else 'R'
    posts.insert(rng.randrange(0, len(posts) + 1), X.Post('Null:' + X.acct_of(rng, nk), nk, None))
    return X.Xact(posts)


def expected_fill(x):
    """per-commodity amounts the elided posting must receive"""
    tot = {}
    for p in x.posts:
        if p.must_balance() and p.amt is not None:
            c, v = p.balancing()
            tot[c] = tot.get(c, 0) + v
    return tot


def periodic_bucket(ctx, res, rng, n):
    """a `~ PERIOD` transaction with a single posting is balanced against the bucket like any other transaction: the
    journal is accepted and every forecast transaction carries the bucket posting with the exact negation"""
    for j in range(n):
        style = rng.randrange(3)
        bucket = 'Assets:Bucket'
        s_ = rng.choice(list(X.COMMS))
        a = X.Amt.rand(rng, s_)
        period = rng.choice(['Monthly', 'Weekly', 'Every 2 weeks', 'Quarterly', 'Yearly'])
        other = X.Amt.rand(rng, s_)
        text = (X.bucket_directive(bucket, style) + '~ %s\n    Expenses:Rent    %s\n\n' % (period, a.text()) +
                '2021/01/05 x0\n    Expenses:Food    %s\n' % other.text())
        path = ctx.path('C02_periodic_%d.dat' % (j % 3))
        open(path, 'w').write(text)
        st, out, err = lib.run_ledger(['-f', path, 'reg', '--now', '2021/01/10', '--forecast', 'd<[2023/06/01]', '--format',
                                       '%(payee)|%(account)|%(verif_rational(amount))\\n'])
        res.evaluations += 1
        res.count('periodic-bucket')
        res.nontrivial.add('periodic:' + text)
        rows = [l.split('|') for l in out.decode('utf-8', 'replace').split('\n') if l.count('|') == 2]
        fore = [r for r in rows if r[0].startswith('Forecast')]
        bad = None
        if st != 0:
            bad = 'rejected: ' + err.decode('utf-8', 'replace')[-200:]
        elif not fore:
            bad = 'no forecast transaction generated'
        else:
            rent = [X.canon_amount(r[2]) for r in fore if r[1] == 'Expenses:Rent']
            buck = [X.canon_amount(r[2]) for r in fore if r[1] == bucket]
            if len(rent) != len(buck) or any(c is None or c[1] != a.value for c in rent) or any(c is None or c[1] != -a.value or c[0] != a.sym for c in buck):
                bad = 'forecast rows: %s' % fore[:4]
        if bad:
            res.violations.append(dict(key='periodic-single-posting-not-balanced-by-bucket', desc='a one-posting periodic transaction under a bucket directive: ' + bad,
                                       case=dict(journal=text), observed=bad, required='accepted; each forecast transaction = the posting and %s %s on %s' % (-a.value, a.sym, bucket)))


def bucket_redeclared(ctx, res, rng, n):
    """the bucket is the account of the LATEST declaration, in whichever of the three ways each was written (`A`, `bucket`,
    `account .. / default`), also across an included file and a second -f file: every one-posting transaction is
    balanced against the bucket in force where it stands, with the exact negation"""
    for j in range(n):
        k = rng.randrange(2, 5)
        buckets = rng.sample(['Assets:B1', 'Assets:B2', 'Equity:B3', 'Liabilities:B4', 'Assets:B1:Sub'], k)
        styles = [rng.randrange(3) for _ in range(k)]
        parts, want = [], []
        idx = 0
        for b, st_ in zip(buckets, styles):
            seg = X.bucket_directive(b, st_)
            for _ in range(rng.randrange(1, 4)):
                s_ = rng.choice(list(X.COMMS))
                a = X.Amt.rand(rng, s_)
                if rng.random() < 0.25:
                    y = rng.choice([c for c in X.COMMS if c != s_])
                    cost = X.Amt(F(rng.randrange(1, 9999), 100), 2, y)
                    seg += '2021/01/%02d x%d\n    Expenses:E%d    %s @ %s\n\n' % (1 + idx % 28, idx, idx, a.text(), cost.text())
                    want.append((idx, b, y, -cost.value * a.value))
                else:
                    seg += '2021/01/%02d x%d\n    Expenses:E%d    %s\n\n' % (1 + idx % 28, idx, idx, a.text())
                    want.append((idx, b, s_, -a.value))
                idx += 1
            parts.append(seg)
        layout = rng.randrange(3)
        main = ctx.path('C02_rebucket.dat')
        args = ['-f', main]
        if layout == 0 or len(parts) < 2:
            open(main, 'w').write(''.join(parts))
        elif layout == 1:
            open(ctx.path('C02_rebucket_inc.dat'), 'w').write(parts[1])
            open(main, 'w').write(parts[0] + 'include C02_rebucket_inc.dat\n\n' + ''.join(parts[2:]))
        else:
            open(main, 'w').write(parts[0])
            open(ctx.path('C02_rebucket_2.dat'), 'w').write(''.join(parts[1:]))
            args += ['-f', ctx.path('C02_rebucket_2.dat')]
        st, out, err = lib.run_ledger(args + ['reg', '--empty', '--format', '%(payee)|%(account)|%(verif_rational(amount))\n'])
        res.evaluations += 1
        res.count('bucket-redeclared:%d-declarations:layout-%d' % (k, layout))
        res.nontrivial.add('rebucket:' + ''.join(parts))
        rows = [l.split('|') for l in out.decode('utf-8', 'replace').split('\n') if l.count('|') == 2]
        bad = None
        if st != 0:
            bad = 'rejected: ' + err.decode('utf-8', 'replace')[-200:]
        else:
            for i, b, sym, val in want:
                got = [(r[1], X.canon_amount(r[2])) for r in rows if r[0] == 'x%d' % i and not r[1].startswith('Expenses:E')]
                if len(got) != 1 or got[0][0] != b or got[0][1] is None or got[0][1][1] != val or (val != 0 and got[0][1][0] != sym):
                    bad = 'x%d: balancing posting %s, required %s %s on %s' % (i, got, val, sym, b)
                    break
        if bad:
            res.violations.append(dict(key='bucket-not-the-latest-declaration', desc='one-posting transactions under %d bucket declarations (%s): %s' % (k, ', '.join('%s as %s' % (b, ['A', 'bucket', 'account/default'][s_]) for b, s_ in zip(buckets, styles)), bad),
                                       case=dict(journal='\n; ---- next part\n'.join(parts), layout=layout), observed=bad, required='each balanced against the bucket declared last before it'))


def run(ctx, n_override=None):
    rng = ctx.rng
    res = lib.Result()
    res.rule = ('journals of 3-10 transactions: one elided posting in every position among 1-6 others over 1-4 commodities '
                '(costs @/@@, (virtual)/[balanced] postings, an exactly cancelling commodity), two elided postings, a lone '
                'posting with and without an `A` bucket directive, all-virtual companions; non-trivial = has an elided posting or '
                'a bucket applies; distinct by rendered text')
    n = n_override or ctx.scale(220, 5000)
    for j in range(n):
        bucket = 'Assets:Bucket' if rng.random() < 0.3 else None
        xs = []
        for _ in range(rng.randrange(3, 10)):
            r = rng.random()
            if r < 0.62:
                x = gen_null_xact(rng)
            elif r < 0.72:
                x = gen_null_xact(rng)
                cands = [p for p in x.posts if p.amt is not None and p.must_balance()]
                if cands:
                    q = rng.choice(cands)
                    q.amt, q.cost = None, None                # a second elided amount
            elif r < 0.80:
                s = rng.choice(list(X.COMMS))                  # a lone posting
                a = X.Amt.rand(rng, s)
                if rng.random() < 0.15:
                    a = X.Amt(0, X.COMMS[s][1], s)              # a literal zero still gets its bucket posting
                x = X.Xact([X.Post(X.acct_of(rng, 'R'), 'R', a if rng.random() < 0.7 else a.neg())])
            elif r < 0.84:
                # a lone posting whose cost is in a commodity nothing has displayed yet: display-zero, not zero
                g = X.gen_cost_only(rng, nother=0)
                x = X.Xact([p for p in g.posts if p.amt is not None])
            elif r < 0.87:
                x = X.gen_cost_only(rng)
            elif r < 0.9:
                x = X.Xact([X.Post('Null:Assets:Cash', 'R', None), X.Post('V:Expenses:Food', 'V', X.Amt.rand(rng, '$'))])
            elif r < 0.97:
                x = X.gen_balanced(rng)
            else:
                x = X.gen_grant(rng)
            x.date = '2020/%02d/%02d' % (rng.randrange(1, 13), rng.randrange(1, 29))
            xs.append(x)
        # directive combinations: the bucket declared as `A`, `bucket` or `account .. default`, and the whole journal inside an
        # `apply account` block (the bucket's account then lives below the root like every other account)
        X.written_variants(xs)
        root = rng.choice(['Top', 'Personal:Books']) if rng.random() < 0.25 else None
        bstyle = rng.randrange(3)
        res.count('layout:%s%s' % ('apply-account' if root else 'plain', (':bucket-style-%d' % bstyle) if bucket else ''))
        rows, rejected, errs, st, text = X.compare_journal(ctx, res, 'C02', j, xs, bucket, root=root, bucket_style=bstyle)
        for i, x in enumerate(xs):
            nulls = x.nulls()
            impl = X.impl_summary(i, rows, rejected, errs)
            if nulls or (bucket and len(x.posts) == 1):
                res.nontrivial.add(x.text(0))
            if len(res.samples) < 5 and nulls:
                res.samples.append(dict(xact=x.text(i), impl=impl[:300]))
            # ---- oracle
            if len(nulls) >= 2:
                if i not in rejected:
                    res.violations.append(dict(key='two-nulls-accepted', desc='two elided amounts were accepted', case=dict(journal=text, xact=i),
                                               observed=impl, required='an error'))
                continue
            lone_bucket = bucket and len(x.posts) == 1 and x.posts[0].amt is not None and x.posts[0].must_balance()
            if len(nulls) == 1 or lone_bucket:
                others = [p for p in x.posts if p.must_balance() and p.amt is not None]
                if not others:
                    continue            # no other balancing posting: outside the quantifier (1-6 others)
                exp = expected_fill(x)
                nacct = nulls[0].acct if nulls else bucket
                if i in rejected:
                    res.violations.append(dict(key='null-fill-rejected:' + errs[i], desc='transaction with one elided amount rejected (%s)' % errs[i],
                                               case=dict(journal=text, xact=i), observed=impl, required='accepted with the inferred amount'))
                    continue
                got = {}
                nrows = 0
                for r in rows.get(i, []):
                    if r['acct'] == nacct:
                        nrows += 1
                        got[r['amt'][0]] = got.get(r['amt'][0], 0) + r['amt'][1]
                # "on the same account": written [Account] / (Account), every inferred posting is that kind of posting too
                if nulls and any(r['acct'] == nacct and r['virtual'] != (nulls[0].kind != 'R') for r in rows.get(i, [])):
                    res.violations.append(dict(key='null-fill-kind-changed', desc='the elided posting is written as a %s posting; an inferred posting on %s is not' % ({'R': 'real', 'B': '[balanced virtual]', 'V': '(virtual)'}[nulls[0].kind], nacct),
                                               case=dict(journal=text, xact=i), observed=impl, required='every inferred posting of the same kind'))
                want = {c: -v for c, v in exp.items()}
                if {c: v for c, v in got.items() if v != 0} != {c: v for c, v in want.items() if v != 0}:
                    res.violations.append(dict(key='null-fill-wrong-amount', desc='elided posting received %s, the negated sum of the rest is %s' % (got, want),
                                               case=dict(journal=text, xact=i), observed=str(got), required=str(want)))
                # every other row unchanged, in order
                orig = [(p.acct, p.key(), p.amt.value) for p in x.posts if p.amt is not None]
                seen = [(r['acct'], r['amt'][0], r['amt'][1]) for r in rows.get(i, []) if r['acct'] != nacct]
                if orig != seen:
                    res.violations.append(dict(key='null-fill-changed-others', desc='the written postings changed: %s vs %s' % (seen, orig),
                                               case=dict(journal=text, xact=i), observed=str(seen), required=str(orig)))
                ncomm = max(1, len([c for c in exp]))
                if nrows != ncomm and all(v != 0 for v in exp.values()):
                    res.violations.append(dict(key='null-fill-row-count', desc='%d rows on the elided account for %d commodities' % (nrows, ncomm),
                                               case=dict(journal=text, xact=i), observed=str(nrows), required=str(ncomm)))
    periodic_bucket(ctx, res, rng, max(6, n // 20))
    bucket_redeclared(ctx, res, rng, max(12, n // 10))
    return res


def search(ctx, broken):
    import random
    for s in range(4):
        ctx.rng = random.Random('C02-search-%d-%d' % (ctx.seed, s))
        r = run(ctx, n_override=400)
        if r.violations:
            return r.violations
    return []


def replay(ctx, obj):
    res = lib.Result()
    case = obj.get('case') or {}
    if 'journal' in case:
        st, out, err, path = X.run_ledger_journal(ctx, 'replay.dat', case['journal'])
        print('status', st)
        print(out.decode()[:3000])
        print(err.decode()[:3000])
    return res
