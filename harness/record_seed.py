#!/usr/bin/env python3
"""record_seed.py <id> <property> <breaks> <needs> <files> <caught_by> [round note]: copy /tmp/seed/out/<id> to seeded/<id> with meta.json"""
import json, os, shutil, sys
sid, prop, breaks, needs, files, caught = sys.argv[1:7]
note = sys.argv[7] if len(sys.argv) > 7 else 'sixth round: told which five ideas were already taken; asked for option/directive combinations, cached state, boundary values, two sites that must agree'
root = os.path.dirname(os.path.dirname(os.path.abspath(__file__)))
src, dst = '/tmp/seed/out/' + sid, os.path.join(root, 'seeded', sid)
if os.path.exists(dst):
    shutil.rmtree(dst)
shutil.copytree(src, dst)
json.dump(dict(property=prop, breaks=breaks, needs=needs, files=files, caught_by=caught,
               written_by='an independent sub-agent given only the property text and a scratch worktree (%s)' % note,
               confirmed='patch applies to /repo HEAD; ledger builds; the 428 pinned tests pass with it and DEMO.sh exits 1 with the change and 0 without (re-run by me in a scratch worktree: /tmp/seed/mut.sh); /verif checks run against a scratch worktree with the patch applied (/tmp/seed/mut.sh: VERIF_REPO, VERIF_LEDGER_BUILD)'),
          open(os.path.join(dst, 'meta.json'), 'w'), indent=1)
print('recorded', sid)
