#!/usr/bin/env python3
"""Rewrites the SEEDED region of DESIGN.md from seeded/*/meta.json."""
import json, os, re
root = os.path.dirname(os.path.dirname(os.path.abspath(__file__)))
rows = ['| id | property | the change | needs, in order to manifest | caught by |', '|---|---|---|---|---|']
for d in sorted(os.listdir(os.path.join(root, 'seeded'))):
    p = os.path.join(root, 'seeded', d, 'meta.json')
    if os.path.exists(p):
        m = json.load(open(p))
        rows.append('| %s | %s | %s (%s) | %s | %s |' % (d, m['property'], m['breaks'].replace('|', '\\|'), m.get('files', ''), m['needs'].replace('|', '\\|'), m['caught_by'].replace('|', '\\|')))
p = os.path.join(root, 'DESIGN.md')
s = open(p).read()
s = re.sub(r'<!-- SEEDED-BEGIN -->.*?<!-- SEEDED-END -->', lambda _: '<!-- SEEDED-BEGIN -->\n' + '\n'.join(rows) + '\n<!-- SEEDED-END -->', s, flags=re.S)
open(p, 'w').write(s)
print(len(rows) - 2, 'seeded changes')
