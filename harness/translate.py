#!/usr/bin/env python3
"""Translator: regenerates coq/Gen/*.v from /repo's current source on every run.
Each module harness/translators/<name>.py defines generate(repo_dir, gen_dir); it reads the
source with deliberately narrow patterns and FAILS CLOSED (an unrecognised pattern becomes an
`unrecognised` entry or a Coq value no theorem accepts, never a silently kept old value).
A file is rewritten only when its content changes, so `make` re-checks dependants exactly then."""
import importlib, os, sys


def write_if_changed(path, text):
    old = open(path).read() if os.path.exists(path) else None
    if old != text:
        with open(path, 'w') as f:
            f.write(text)
        return True
    return False


def main():
    repo, gen = sys.argv[1], sys.argv[2]
    os.makedirs(gen, exist_ok=True)
    here = os.path.dirname(os.path.abspath(__file__))
    sys.path.insert(0, here)
    tdir = os.path.join(here, 'translators')
    for f in sorted(os.listdir(tdir)):
        if f.endswith('.py') and not f.startswith('_'):
            mod = importlib.import_module('translators.' + f[:-3])
            for name, text in mod.generate(repo).items():
                changed = write_if_changed(os.path.join(gen, name), text)
                print('%s %s' % ('regenerated' if changed else 'unchanged', name))


if __name__ == '__main__':
    main()
