#!/usr/bin/env python3
"""Rewrites the table of translators in DESIGN.md section 3.2 from harness/translators/*.py (module docstring, files written)."""
import importlib, os, re, sys
root = os.path.dirname(os.path.dirname(os.path.abspath(__file__)))
sys.path.insert(0, os.path.join(root, 'harness'))
rows = ['| translator | writes (coq/Gen) | what it reads |', '|---|---|---|']
tdir = os.path.join(root, 'harness', 'translators')
for f in sorted(os.listdir(tdir)):
    if f.endswith('.py') and not f.startswith('_'):
        mod = importlib.import_module('translators.' + f[:-3])
        files = sorted(mod.generate('/repo'))
        doc = re.sub(r'\s+', ' ', (mod.__doc__ or '').strip())[:300].replace('|', '\\|')
        rows.append('| `%s` | %s | %s |' % (f, ', '.join('`%s`' % x for x in files), doc))
p = os.path.join(root, 'DESIGN.md')
s = open(p).read()
s = re.sub(r'<!-- TRANSLATORS-BEGIN -->.*?<!-- TRANSLATORS-END -->', lambda _: '<!-- TRANSLATORS-BEGIN -->\n' + '\n'.join(rows) + '\n<!-- TRANSLATORS-END -->', s, flags=re.S)
open(p, 'w').write(s)
print(len(rows) - 2, 'translators')
