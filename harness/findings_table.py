#!/usr/bin/env python3
"""Rewrites the region between <!-- FINDINGS-BEGIN --> and <!-- FINDINGS-END --> of DESIGN.md from
known_findings.txt, so that the design document and the file the checks read cannot drift apart."""
import os, re, subprocess
root = os.path.dirname(os.path.dirname(os.path.abspath(__file__)))
kf = open(os.path.join(root, 'known_findings.txt')).read().split('\n')
rows_f, rows_x = [], []
for l in kf:
    m = re.match(r'finding:\s+property=(\w+)\s+id=(\S+)\s+match=(\S+)\s*(.*)', l)
    if m:
        rows_f.append('| %s | %s | `%s` | %s |' % (m.group(2), m.group(1), m.group(3).replace('|', '\\|'), m.group(4).replace('|', '\\|')))
    m = re.match(r'fixed:\s+property=(\w+)\s+(\w+)\s+(.*)', l)
    if m:
        rows_x.append('| %s | %s | %s |' % (m.group(1), m.group(2), m.group(3).replace('|', '\\|')))
text = ['<!-- FINDINGS-BEGIN -->',
        '### 9.1 Repaired in /repo (one `fix:` commit each; the pinned suite passes after each; a `fixed:` line suppresses nothing)',
        '', '| property | commit | what failed |', '|---|---|---|'] + rows_x + [
        '', '### 9.2 Recorded, not repaired (`finding:` lines; the check prints KNOWN-FINDING and exits 0 only for a violation whose key matches)',
        '', '| id | property | key pattern | what fails and why it is not repaired |', '|---|---|---|---|'] + rows_f + ['<!-- FINDINGS-END -->']
p = os.path.join(root, 'DESIGN.md')
s = open(p).read()
if '<!-- FINDINGS-BEGIN -->' in s:
    s = re.sub(r'<!-- FINDINGS-BEGIN -->.*?<!-- FINDINGS-END -->', lambda _: '\n'.join(text), s, flags=re.S)
else:
    marker = '## 10. MANIFEST and evidence'
    s = s.replace(marker, '## 9bis. Findings as built (generated from known_findings.txt by harness/findings_table.py)\n\n' + '\n'.join(text) + '\n\n---------------------------------------------------------------------------\n\n' + marker)
open(p, 'w').write(s)
print('%d repaired, %d recorded' % (len(rows_x), len(rows_f)))
