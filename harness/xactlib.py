"""Shared by C01/C02 (and later C06/C08/C09/C16): abstract transactions, rendering to journal text,
S-expressions for the extracted model (driver drv_C01), parsing of ledger's register rows."""
import re, random
from fractions import Fraction as F
import lib

COMMS = {'$': ('pre', 2), 'EUR': ('suf', 2), 'AAA': ('suf', 0), 'BBB': ('suf', 3), 'CCC': ('suf', 0)}


class Amt:
    """a decimal literal with commodity; value = digits/10^dec (sign applied)"""
    def __init__(self, value, dec, sym, marks=False):
        self.value, self.dec, self.sym = F(value), dec, sym
        self.marks = marks          # written with thousands marks (teaches the commodity that style)

    @staticmethod
    def rand(rng, sym, dec=None, lo=1, hi=99999):
        if dec is None:
            dec = COMMS[sym][1] if rng.random() < 0.8 else rng.choice([0, 1, 2, 3, 4])
        n = rng.randrange(lo, hi)
        return Amt(F(n, 10 ** dec), dec, sym)

    def neg(self):
        return Amt(-self.value, self.dec, self.sym)

    def text(self):
        v = self.value
        s = '%d' % abs(v * 10 ** self.dec)
        if self.dec:
            s = s.rjust(self.dec + 1, '0')
            s = s[:-self.dec] + '.' + s[-self.dec:]
        if getattr(self, 'marks', False):
            ip, _, fp = s.partition('.')
            ip = re.sub(r'(?<=\d)(?=(\d{3})+$)', ',', ip)
            s = ip + ('.' + fp if fp else '')
        sign = '-' if v < 0 else ''
        if self.sym is None:
            return sign + s
        if COMMS.get(self.sym, ('suf',))[0] == 'pre':
            return self.sym + sign + s
        return sign + s + ' ' + self.sym

    def sx(self, key=None):
        return [self.value.numerator, self.value.denominator, self.dec, (key or self.sym or '').encode()]


class Post:
    def __init__(self, acct, kind='R', amt=None, cost=None, lot=None, vcost=False):
        # kind: R real, V (virtual), B [balanced virtual]; cost: ('u'|'t', Amt); lot: Amt per-unit price
        # vcost: the cost is written (@) / (@@) - a "virtual cost", which enters no price history but balances like any cost
        self.acct, self.kind, self.amt, self.cost, self.lot, self.vcost = acct, kind, amt, cost, lot, vcost
        self.lot_date, self.lot_note = None, None       # the written [date] and (note) of a lot: part of the commodity's identity
        self.indent, self.sep = '    ', None            # the written layout; sep None = four spaces and no line for the model
        self.lot_fixed = False                          # the lot price written {=PRICE}: a fixated price
        self.mark = ''                                  # the state flag written before the account: '* ', '!', ... (with its white space)

    def must_balance(self):
        return self.kind != 'V'

    def key(self):
        """commodity key of the amount as the model sees it (canonical annotation)"""
        if self.amt is None:
            return None
        if self.lot is None:
            return self.amt.sym
        # (whether the price is written {=P} or {P} is not part of the key: ledger keeps ONE commodity per price, and which
        # of the two ways of writing it shows depends on which was seen first)
        return ('%s~{%s/%s %s}' % (self.amt.sym, self.lot.value.numerator, self.lot.value.denominator, self.lot.sym) +
                (' [%s]' % self.lot_date if getattr(self, 'lot_date', None) else '') +
                (' (%s)' % self.lot_note if getattr(self, 'lot_note', None) else ''))

    def text(self):
        a = {'R': '%s', 'V': '(%s)', 'B': '[%s]'}[self.kind] % self.acct
        if self.amt is None:
            return self.indent + getattr(self, 'mark', '') + a + (self.sep or '')
        s = self.amt.text()
        if self.lot is not None:
            s += ' {%s%s}' % ('=' if getattr(self, 'lot_fixed', False) else '', self.lot.text())
            if getattr(self, 'lot_date', None):
                s += ' [%s]' % self.lot_date
            if getattr(self, 'lot_note', None):
                s += ' (%s)' % self.lot_note
        if self.cost is not None:
            op = '@' if self.cost[0] == 'u' else '@@'
            s += ' %s ' % (('(%s)' % op) if getattr(self, 'vcost', False) else op) + self.cost[1].text()
        return '%s%s%s%s%s' % (self.indent, getattr(self, 'mark', ''), a, self.sep or '    ', s)

    def sx(self):
        r = ['post', self.acct.encode(), self.kind,
             self.amt.sx(self.key()) if self.amt else '-',
             [self.cost[0]] + self.cost[1].sx() if self.cost else '-',
             self.lot.sx() if self.lot else '-']
        if self.sep is not None:
            # the line as written, after its indentation: the model of the line reader finds account, kind and the
            # presence of an amount in it (Model/PostLine.v)
            r.append(self.text()[len(self.indent):].encode())
        return r

    def balancing(self):
        """(commodity, exact quantity) this posting contributes to the transaction's balance"""
        if self.amt is None:
            return None
        if self.cost is None:
            return (self.key(), self.amt.value)
        k, c = self.cost
        if k == 'u':
            return (c.sym, c.value * self.amt.value)
        return (c.sym, -c.value if self.amt.value < 0 else c.value)


class Xact:
    def __init__(self, posts, date='2020/01/01', tag=''):
        self.posts, self.date, self.tag = posts, date, tag

    def text(self, i):
        # head: what stands between the date and the payee - a state flag and/or a (code), e.g. '* (c1) '
        return '\n'.join(['%s %sx%d' % (self.date, getattr(self, 'head', ''), i)] + [p.text() for p in self.posts]) + '\n'

    def sx(self):
        return ['xact'] + [p.sx() for p in self.posts]

    def residual(self):
        r = {}
        for p in self.posts:
            if p.must_balance():
                b = p.balancing()
                if b:
                    r[b[0]] = r.get(b[0], 0) + b[1]
        return {k: v for k, v in r.items() if v != 0}

    def nulls(self):
        return [p for p in self.posts if p.amt is None and p.must_balance()]


GAPS = ['  ', '\t', ' \t', '\t ', '\t\t', '   ', '  \t', ' \t ', '    ', '\t  ', '      \t']
INDENTS = [' ', '\t', '  ', '    ', '\t\t', ' \t', '        ']


def vary_layout(rng, xacts, p=0.7):
    """the same postings written differently: any indentation, any permitted gap between account and amount (a tab,
    two or more spaces, blanks holding a tab), trailing blanks after an account without amount, a single space
    inside an account name"""
    for x in xacts:
        for q in x.posts:
            if rng.random() < p:
                q.sep = rng.choice(GAPS)
                q.indent = rng.choice(INDENTS)
                if rng.random() < 0.15 and ':' in q.acct and ' ' not in q.acct:
                    head, _, leaf = q.acct.rpartition(':')
                    q.acct = head + ':' + leaf[:1] + ' ' + leaf[1:] if len(leaf) > 1 else q.acct
    return xacts


def written_variants(xs, layout=0.5, zero_costs=0.2):
    """post-pass on a generated journal, driven by its own text (the main generator stream is left alone): a different
    written layout for half the journals, and - where one elided amount absorbs whatever the rest sums to - some
    written costs set to exactly zero (a grant: `10 ACME @ $0.00`)"""
    import zlib
    lrng = random.Random(zlib.crc32(render_journal(xs).encode()))
    if lrng.random() < layout:
        vary_layout(lrng, xs)
    for x in xs:
        if len(x.nulls()) == 1:
            for q in x.posts:
                if q.cost and q.lot is None and lrng.random() < zero_costs:
                    q.cost = (q.cost[0], Amt(F(0), q.cost[1].dec, q.cost[1].sym))
    return xs


def gen_grant(rng):
    """units received at a written cost of exactly zero beside a priced purchase, paid exactly (or off by one unit)"""
    x, y = rng.sample(list(COMMS), 2)
    dec = rng.choice([0, 2, 2, 3])
    n1, n2 = rng.randrange(1, 200), rng.randrange(1, 200)
    price = Amt(F(rng.randrange(1, 99999), 100), 2, y)
    zero = (rng.choice(['u', 't']), Amt(F(0), dec, y))
    posts = [Post(acct_of(rng, 'R'), 'R', Amt(F(n1), 0, x), zero, vcost=rng.random() < 0.2),
             Post(acct_of(rng, 'R'), 'R', Amt(F(n2), 0, x), ('u', price))]
    if rng.random() < 0.3:
        posts = posts[:1] if rng.random() < 0.5 else posts
    total = sum((q.balancing()[1] for q in posts), F(0))
    off = F(rng.choice([0, 0, 0, 1, -2]))
    if rng.random() < 0.5 and off == 0:
        posts.append(Post('Null:' + acct_of(rng, 'R'), 'R', None))
    else:
        posts.append(Post(acct_of(rng, 'R'), 'R', Amt(-total + off, 2, y)))
    rng.shuffle(posts)
    return Xact(posts)


BUCKET_STYLES = ['A %s\n\n', 'bucket %s\n\n', 'account %s\n    default\n\n']


def bucket_directive(bucket, style=0):
    return BUCKET_STYLES[style] % bucket if bucket else ''


def render_journal(xacts, bucket=None, prelude='', root=None, bucket_style=0):
    """root: the whole journal (the bucket directive included) inside `apply account ROOT` ... `end apply account`:
    every account, the bucket's too, then lives below ROOT"""
    out = prelude
    if root:
        out += 'apply account %s\n\n' % root
    out += bucket_directive(bucket, bucket_style)
    out += '\n'.join(x.text(i) for i, x in enumerate(xacts))
    if root:
        out += '\nend apply account\n'
    return out


def journal_sx(jid, xacts, bucket=None):
    return lib.sx(['journal', jid, ['bucket', bucket.encode() if bucket else '-']] + [x.sx() for x in xacts])


REG_FMT = ('%(payee)|%(account)|%(virtual)|%(calculated)|%(cost_calculated)|%(actual)|'
           '%(verif_rational(amount))|%(verif_rational(cost))\\n')

ANN_RE = re.compile(r'\{([^}]*)\}')


def canon_amount(r):
    """hook text A:<hexsym>[~<hexann>]:n/d:prec:keep -> (key, Fraction, prec, keep) with a canonical lot key"""
    m = re.fullmatch(r'A:([0-9a-f]*)(?:~([0-9a-f]*))?:(-?\d+)/(\d+):(\d+):([01])', r)
    if not m:
        return None
    sym = bytes.fromhex(m.group(1)).decode('utf-8', 'replace')
    key = sym or None
    if m.group(2):
        ann = bytes.fromhex(m.group(2)).decode('utf-8', 'replace')
        pm = ANN_RE.search(ann)
        if pm:
            pt = pm.group(1).strip()
            fixed = pt.startswith('=')
            pt = pt.lstrip('=').strip()
            mm = re.fullmatch(r'(\D*?)\s*(-?[\d.,]+)\s*(\D*)', pt)
            psym = (mm.group(1) or mm.group(3)).strip()
            pv = F(mm.group(2).replace(',', ''))
            key = '%s~{%s/%s %s}' % (sym, pv.numerator, pv.denominator, psym)
            dm = re.search(r'\[([^\]]*)\]', ann)
            nm = re.search(r'\(([^)]*)\)', ann[pm.end():])
            if dm:
                key += ' [%s]' % dm.group(1).strip()
            if nm:
                key += ' (%s)' % nm.group(1)
        else:
            key = sym + '~' + ann.strip()
    return (key, F(int(m.group(3)), int(m.group(4))), int(m.group(5)), int(m.group(6)))


def show_canon(c):
    if c is None:
        return '?'
    return '%s:%s/%s:%d:%d' % (c[0] or '', c[1].numerator, c[1].denominator, c[2], c[3])


def parse_reg(out, root=None):
    """-> {xact index: [row strings in the canonical form the driver prints]}; with `root` the accounts are taken
    relative to it and a row whose account is not below it is marked (row['outside'])"""
    rows = {}
    for line in out.decode('utf-8', 'replace').split('\n'):
        f = line.split('|')
        if len(f) != 8 or not re.fullmatch(r'x\d+', f[0]):
            continue
        outside = False
        if root:
            if f[1].startswith(root + ':'):
                f[1] = f[1][len(root) + 1:]
            else:
                outside = True
        i = int(f[0][1:])
        amt, cost = canon_amount(f[6]), canon_amount(f[7])
        rows.setdefault(i, []).append(dict(
            acct=f[1], virtual=f[2] == 'true', calculated=f[3] == 'true', cost_calculated=f[4] == 'true',
            generated=f[5] != 'true', amt=amt, cost=cost, outside=outside,
            text='%s,%s,%s,%s,%d%d%d' % (f[1], 'v' if f[2] == 'true' else 'r', show_canon(amt), show_canon(cost),
                                        f[3] == 'true', f[5] != 'true', f[4] == 'true')))
    return rows


ERR_CLASSES = [
    ('Transaction does not balance', 'Unbalanced'),
    ('Only one posting with null amount allowed', 'TwoNulls'),
    ("Posting with null amount's account may be misspelled", 'TwoNulls'),
    ('There cannot be null amounts after balancing', 'NullLeft'),
    ("A posting's cost must be of a different commodity", 'CostSameComm'),
    ('Divide by zero', 'DivZero'),
]


def line_ranges(text):
    """journal text -> [(first line, last line, xact index)] for the `DATE xN` transactions"""
    out, cur = [], None
    lines = text.split('\n')
    for n, l in enumerate(lines, 1):
        m = re.match(r'\S+ (?:[*!] *)?(?:\([^)]*\) )?x(\d+)$', l)
        if m:
            cur = [n, n, int(m.group(1))]
            out.append(cur)
        elif cur is not None and (l[:1] in (' ', '\t') or l == ''):
            cur[1] = n
            if l == '':
                cur = None
        else:
            cur = None
    return out


def parse_errors(err, path, text=None):
    """stderr -> {xact index: class}; an error is attributed to the transaction whose line range
    contains the line named in `While parsing file "F", line N:` (or the `> DATE xN` context)"""
    res = {}
    # `text` is the journal text, or {file base name: text} when the journal is spread over included files
    by_file = {k: line_ranges(v) for k, v in text.items()} if isinstance(text, dict) else None
    ranges = [] if by_file is not None else (line_ranges(text) if text else [])
    msg = err.decode('utf-8', 'replace')
    for block in re.split(r'(?=While parsing file)', msg):
        e = re.search(r'^Error: (.*)$', block, re.M)
        if not e:
            continue
        cls = 'Other'
        for pat, c in ERR_CLASSES:
            if pat in e.group(1):
                cls = c
        idx = None
        m = re.search(r'^> \S+ (?:[*!] *)?(?:\([^)]*\) )?x(\d+)', block, re.M)
        if m:
            idx = int(m.group(1))
        else:
            h = re.search(r'While parsing file "([^"]*)", lines? (\d+)', block)
            if h:
                ln = int(h.group(2))
                for a, b, i in (by_file.get(h.group(1).rsplit('/', 1)[-1], []) if by_file is not None else ranges):
                    if a <= ln <= b:
                        idx = i
        if idx is not None:
            res[idx] = cls
        else:
            res.setdefault('unlocated', []).append(cls)
    return res


def run_ledger_journal(ctx, name, text, extra=()):
    path = ctx.path(name)
    open(path, 'w').write(text)
    st, out, err = lib.run_ledger(['-f', path, 'reg', '--empty', '--no-rounding', '--format', REG_FMT] + list(extra))
    return st, out, err, path


# ---------------------------------------------------------------------------- generators
ACCTS = ['Assets:Bank', 'Assets:Cash', 'Expenses:Food', 'Expenses:Rent', 'Income:Job', 'Liabilities:Card',
         'Equity:Open', 'Assets:Broker:X', 'Expenses:Tax:Fed']


def kind_of(rng, allow_virtual=True):
    r = rng.random()
    if allow_virtual and r < 0.12:
        return 'V'
    if allow_virtual and r < 0.2:
        return 'B'
    return 'R'


def acct_of(rng, kind):
    a = rng.choice(ACCTS)
    return {'R': a, 'V': 'V:' + a, 'B': 'BV:' + a}[kind]


def gen_balanced(rng, ncomm=None, with_costs=True, with_virtual=True):
    """an exactly balanced transaction: per commodity the must-balance postings sum to zero"""
    syms = rng.sample(list(COMMS), ncomm or rng.choice([1, 1, 1, 2, 2, 3]))
    posts = []
    for s in syms:
        k = rng.choice([2, 2, 3, 4])
        dec = COMMS[s][1] if rng.random() < 0.85 else rng.choice([0, 1, 2, 3, 4, 6])
        vals = [F(rng.randrange(-99999, 99999), 10 ** dec) for _ in range(k - 1)]
        vals.append(-sum(vals))
        for v in vals:
            kd = kind_of(rng, with_virtual)
            if kd == 'V':
                kd = 'B' if rng.random() < 0.5 else 'R'
            posts.append(Post(acct_of(rng, kd), kd, Amt(v, dec, s)))
    if with_virtual and rng.random() < 0.25:
        s = rng.choice(list(COMMS))
        vp = Post(acct_of(rng, 'V'), 'V', Amt.rand(rng, s))
        if with_costs and rng.random() < 0.4:
            # a cost on a posting that does not balance: of no consequence for the transaction, (@) or @ alike
            y = rng.choice([c for c in COMMS if c != s])
            vp.cost = (rng.choice(['u', 't']), Amt(F(rng.randrange(1, 9999), 100), 2, y))
            vp.vcost = rng.random() < 0.6
        posts.append(vp)
    if with_costs and rng.random() < 0.35:
        # a purchase: N units of X at a cost in Y, paid exactly
        x, y = rng.sample(list(COMMS), 2)
        units = Amt(F(rng.randrange(1, 500)), 0, x)
        if rng.random() < 0.3:
            units = units.neg()
        dec = rng.choice([2, 2, 3, 4])
        if rng.random() < 0.6:
            price = Amt(F(rng.randrange(1, 99999), 10 ** dec), dec, y)
            cost = ('u', price)
            total = price.value * units.value
            tdec = dec
        else:
            price = Amt(F(rng.randrange(1, 9999999), 10 ** dec), dec, y)
            cost = ('t', price)
            total = price.value if units.value > 0 else -price.value
            tdec = dec
        posts.append(Post(acct_of(rng, 'R'), 'R', units, cost, vcost=rng.random() < 0.2))
        posts.append(Post(acct_of(rng, 'R'), 'R', Amt(-total, tdec, y)))
    rng.shuffle(posts)
    return Xact(posts)


def unbalance(rng, x, whole=True):
    """change one must-balance amount by at least one whole unit (or a sub-display amount)"""
    cands = [p for p in x.posts if p.must_balance() and p.amt is not None and p.cost is None and p.lot is None]
    p = rng.choice(cands)
    delta = F(rng.choice([1, 1, 2, 7, 100, -1, -3, -50])) if whole else F(rng.choice([1, -1, 4, -4]), 10 ** (p.amt.dec + rng.choice([1, 2, 3])))
    p.amt = Amt(p.amt.value + delta, p.amt.dec if whole else p.amt.dec + 3, p.amt.sym)
    return x


def gen_half_unit(rng):
    """residual at / just below / just above half a display unit of $ via an excess-precision cost"""
    units = rng.choice([1, 1, 3, 7, 10])
    base = F(rng.randrange(100, 99999), 100)               # price with 2 decimals
    eps = F(rng.choice([4, 5, 6, 49, 50, 51, 1, 9]), 10 ** rng.choice([3, 3, 4]))
    price = base + eps / units
    dec = 6
    price = F(round(price * 10 ** dec), 10 ** dec)
    sign = rng.choice([1, -1])
    pay = F(round(base * units * 100), 100)
    return Xact([Post('Assets:Broker:X', 'R', Amt(sign * units, 0, 'AAA'), ('u', Amt(price, dec, '$'))),
                 Post('Assets:Bank', 'R', Amt(-sign * pay, 2, '$'))])


def add_cancelling_pair(rng, x):
    """two more postings in a commodity the transaction does not use yet, cancelling exactly: the balance finalize tests
    then holds a second (zero) entry - a BALANCE where it was an AMOUNT - and the verdict must not change"""
    used = set()
    for q in x.posts:
        for a in [q.amt, q.cost[1] if q.cost else None, q.lot]:
            if a is not None and a.sym:
                used.add(a.sym)
    free = [c for c in COMMS if c not in used]
    if not free:
        return x
    a = Amt.rand(rng, rng.choice(free))
    x.posts += [Post(acct_of(rng, 'R'), 'R', a), Post(acct_of(rng, 'R'), 'R', a.neg())]
    rng.shuffle(x.posts)
    return x


def gen_two_commodity(rng):
    """two commodities, no costs, no null: the implied-rate branch (same/opposite signs, zero legs)"""
    x, y = rng.sample(list(COMMS), 2)
    k = rng.randrange(5)
    a = Amt.rand(rng, x)
    b = Amt.rand(rng, y)
    if k == 0:
        posts = [Post('Assets:Cash', 'R', a), Post('Assets:Bank', 'R', b.neg())]
    elif k == 1:
        posts = [Post('Assets:Cash', 'R', a), Post('Assets:Bank', 'R', b)]            # same sign: cannot balance
    elif k == 2:
        a2 = Amt.rand(rng, x)
        posts = [Post('Assets:Cash', 'R', a), Post('Expenses:Food', 'R', a2), Post('Assets:Bank', 'R', b.neg())]
    elif k == 3:
        posts = [Post('Assets:Cash', 'R', Amt(0, 0, rng.choice(list(COMMS)))), Post('Expenses:Food', 'R', a), Post('Assets:Bank', 'R', b.neg())]
    else:
        posts = [Post('BV:Assets:Cash', 'B', a), Post('Assets:Bank', 'R', b.neg()), Post('V:Expenses:Food', 'V', Amt.rand(rng, y))]
    if rng.random() < 0.3:
        rng.shuffle(posts)
    return Xact(posts)


def gen_lot(rng):
    """a sale of a lot: amount with {price} and a different @ cost (gain/loss branch)"""
    units = rng.randrange(1, 50)
    lotp = F(rng.randrange(100, 9999), 100)
    sell = lotp + F(rng.choice([0, 1, -1, 5, 250, -300]), 1000)
    sign = rng.choice([-1, 1])
    amt = Amt(sign * units, 0, 'AAA')
    p1 = Post('Assets:Broker:X', 'R', amt, ('u', Amt(sell, 3, '$')), Amt(lotp, 2, '$'))
    return Xact([p1, Post('Assets:Bank')])


def gen_virtual_lot(rng, elide=True):
    """a (virtual) - not balancing - sale of a lot whose {price} differs from its @ cost, beside ordinary postings:
    its gain/loss is no business of the transaction's balance, nor of an elided amount"""
    units = rng.randrange(1, 50)
    lotp = F(rng.randrange(100, 9999), 100)
    sell = lotp + F(rng.choice([1, -1, 5, 250, -300, 1000]), rng.choice([1, 100, 1000]))
    if sell <= 0:
        sell = lotp + 1
    kind = 'V'
    p1 = Post(acct_of(rng, kind), kind, Amt(rng.choice([-1, 1]) * units, 0, 'AAA'), ('u', Amt(sell, 3, '$')), Amt(lotp, 2, '$'))
    a = Amt.rand(rng, '$')
    posts = [Post(acct_of(rng, 'R'), 'R', a), p1]
    if elide or kind != 'V':
        posts.append(Post('Null:' + acct_of(rng, 'R'), 'R', None))
    else:
        posts.append(Post(acct_of(rng, 'R'), 'R', a.neg()))
    if rng.random() < 0.5:
        rng.shuffle(posts)
    return Xact(posts)


def gen_lot_notes(rng):
    """a purchase of a lot written with {price}, [date] and (note), paid exactly: lots of one commodity bought at the same
    price on the same lot date but carrying different notes are different lots, whatever order they are read in"""
    units = rng.randrange(1, 40)
    price = F(rng.choice([1000, 1000, 1250, 725]), 100)
    p1 = Post('Assets:Broker:X' if rng.random() < 0.7 else 'Assets:Bank', 'R', Amt(units, 0, 'AAA'), None, Amt(price, 2, '$'))
    p1.lot_date = rng.choice(['2020/01/05', '2020/01/05', '2020/02/01', None])
    p1.lot_note = rng.choice(['lotA', 'lotB', 'ira', None])
    posts = [p1, Post('Assets:Cash', 'R', Amt(-price * units, 2, '$'))]
    if rng.random() < 0.4:
        posts.reverse()
    return Xact(posts)


def gen_implied_rate_with_cancel(rng):
    """two commodities of opposite sign (an implied conversion rate balances them) beside a third whose postings cancel
    exactly: whether the cancelled commodity leaves a zero component in the balance depends on the posting order, and
    must not decide whether the rate is inferred (finding F65)"""
    c1, c2, c3 = rng.sample(list(COMMS), 3)
    a = Amt(F(rng.randrange(1, 500)), 0, c1)
    b = Amt(F(rng.randrange(1, 500)), 0, c2)
    c = Amt(F(rng.randrange(1, 500)), 0, c3)
    posts = [Post('Assets:Cash', 'R', a), Post('Assets:Bank', 'R', b), Post('Expenses:Food', 'R', a.neg()), Post('Income:Job', 'R', c.neg())]
    rng.shuffle(posts)
    return Xact(posts)


def gen_implied_rate_with_virtual(rng):
    """two commodities of opposite sign and no cost (an implied rate balances them) beside a (virtual) posting in one of
    the two commodities: it takes no part in the balance, whichever commodity comes first"""
    c1, c2 = rng.sample(list(COMMS), 2)
    a = Amt(F(rng.randrange(1, 500)), 0, c1)
    b = Amt(F(rng.randrange(1, 500)), 0, c2)
    v = Amt(F(rng.randrange(1, 500)), 0, rng.choice([c1, c2]))
    posts = [Post('Assets:Cash', 'R', a.neg()), Post('Assets:Broker:X', 'R', b), Post('V:Expenses:Food', 'V', v)]
    rng.shuffle(posts)
    return Xact(posts)


def add_null(rng, x):
    """replace one must-balance cost-free posting's amount by an elided one (keeps it balanced)"""
    cands = [i for i, p in enumerate(x.posts) if p.must_balance() and p.amt is not None and p.cost is None and p.lot is None]
    i = rng.choice(cands)
    x.posts[i] = Post(x.posts[i].acct, x.posts[i].kind, None)
    return x


def gen_plain(rng, elide=False):
    """commodity-less amounts written with different numbers of decimals (what is displayed for them is their own
    precision, which addition must take as the larger of the two whatever the order), exactly balanced or with the
    balancing amount elided, sometimes beside a commoditized pair that cancels"""
    k = rng.choice([2, 3, 3, 4])
    decs = [rng.choice([0, 1, 2, 3, 5]) for _ in range(k)]
    vals = [F(rng.randrange(-99999, 99999), 10 ** d) for d in decs[:-1]]
    posts = [Post(acct_of(rng, 'R'), 'R', Amt(v, d, None)) for v, d in zip(vals, decs)]
    if elide:
        posts.append(Post('Null:' + acct_of(rng, 'R'), 'R', None))
    else:
        posts.append(Post(acct_of(rng, 'R'), 'R', Amt(-sum(vals), max(decs[:-1]), None)))
    if rng.random() < 0.3:
        a = Amt.rand(rng, rng.choice(list(COMMS)))
        posts += [Post(acct_of(rng, 'R'), 'R', a), Post(acct_of(rng, 'R'), 'R', a.neg())]
    rng.shuffle(posts)
    return Xact(posts)


# ---------------------------------------------------------------------------- correspondence
def model_lines_to_map(lines):
    m = {}
    for l in lines:
        parts = l.split(' ', 3)
        m[(parts[0], int(parts[1]))] = (parts[2], parts[3] if len(parts) > 3 else '')
    return m


def clean_journal(xs, rejected):
    """the same amounts in the same order, but every rejected transaction replaced by one accepted
    two-posting transaction per written amount: the pool learns exactly what it learned before"""
    out = []
    for i, x in enumerate(xs):
        if i not in rejected:
            out.append(x.text(i))
            continue
        for p in x.posts:
            if p.amt is not None:
                out.append('%s rej%d\n    Rej:%s    %s\n    Rej:Equity\n' % (x.date, i, p.acct.replace(':', '_'), p.amt.text()))
    return '\n'.join(out)



def impl_summary(i, rows, rejected, errs):
    if i in rejected:
        return 'ERR ' + errs[i]
    if i in rows:
        return 'OK ' + ';'.join(r['text'] for r in rows[i])
    return 'IGNORED'


def compare_journal(ctx, res, prop, j, xs, bucket=None, root=None, bucket_style=0):
    """run one journal through ledger and through the extracted finalize model; record disagreements.
    -> (rows per accepted transaction, rejected set, error classes, exit status, journal text)"""
    jid = 'j%d' % j
    text = render_journal(xs, bucket, root=root, bucket_style=bucket_style)
    st, out, err, path = run_ledger_journal(ctx, '%s_%d.dat' % (prop, j % 6), text)
    errs = parse_errors(err, path, text)
    rejected = set(k for k in errs if isinstance(k, int))
    rows = parse_reg(out, root)
    if rejected:
        st2, out2, err2, _ = run_ledger_journal(ctx, '%s_clean_%d.dat' % (prop, j % 6),
                                                ('apply account %s\n\n' % root if root else '') + bucket_directive(bucket, bucket_style) +
                                                clean_journal(xs, rejected) + ('\nend apply account\n' if root else ''))
        rows = parse_reg(out2, root)
        if st2 != 0:
            res.notes.append('clean journal of %s still has errors: %s' % (jid, err2.decode()[-200:]))
    model = model_lines_to_map(lib.run_model('C01', [journal_sx(jid, xs, bucket)]))
    for i, x in enumerate(xs):
        res.evaluations += 1
        res.traces += 1
        mk, mrest = model.get((jid, i), ('MISSING', ''))
        impl = impl_summary(i, rows, rejected, errs)
        mod = (mk + ' ' + mrest).strip()
        res.count('impl:' + impl.split(' ')[0] + (':' + errs[i] if i in rejected else ''))
        if mk == 'ORDER-DEPENDENT':
            res.count('model:order-dependent')
        elif impl != mod:
            res.disagreements.append(dict(name=prop + '/finalize', case=x.text(i), journal=path, impl=impl, model=mod))
    if errs.get('unlocated'):
        res.notes.append('unlocated errors in %s: %s' % (jid, errs['unlocated'][:3]))
    if root:
        for i, rs in rows.items():
            for r in rs:
                if r.get('outside'):
                    res.violations.append(dict(key='account-outside-applied-root', desc='inside `apply account %s` a posting went to %s' % (root, r['acct']),
                                               case=dict(journal=text, xact=i), observed=r['acct'], required='an account below ' + root))
    return rows, rejected, errs, st, text


COST_ONLY = 'ZZZ'     # a commodity that appears in costs only: costs teach the pool nothing, so its display
                      # precision stays 0 and small totals in it are display-zero without being zero


def gen_cost_only(rng, nother=None):
    """a purchase priced in the cost-only commodity for a total below half a unit, paid by an elided
    posting, among 0-2 other commodities whose postings cancel exactly"""
    units = rng.randrange(1, 49)
    price = F(rng.randrange(1, 49), 100 * units) if rng.random() < 0.5 else F(1, 100)
    dec = 2
    while price * 10 ** dec != int(price * 10 ** dec) and dec < 8:
        dec += 1
    price = F(int(price * 10 ** dec), 10 ** dec) or F(1, 100)
    kind = 'u' if rng.random() < 0.7 else 't'
    cost = (kind, Amt(price if kind == 'u' else price * units, dec, COST_ONLY))
    costed = Post('Assets:Broker:X', 'R', Amt(units, 0, 'AAA'), cost)
    posts = []
    for _ in range(rng.randrange(0, 3) if nother is None else nother):
        s = rng.choice(['BBB', 'CCC', 'EUR'])
        a = Amt.rand(rng, s)
        posts += [Post(acct_of(rng, 'R'), 'R', a), Post(acct_of(rng, 'R'), 'R', a.neg())]
    posts.insert(rng.randrange(0, len(posts) + 1), costed)
    posts.insert(rng.randrange(0, len(posts) + 1), Post('Null:Assets:Cash', 'R', None))
    return Xact(posts)


def gen_cost_unbalanced(rng):
    """costs are written (@ or @@, possibly all @@) and the transaction still leaves whole-unit residues
    in exactly two commodities of opposite sign: no conversion rate may be invented"""
    x, y, z = rng.sample(list(COMMS), 3)
    units = rng.randrange(1, 50)
    total = F(rng.randrange(100, 99999), 100)
    allfull = rng.random() < 0.5
    cost = ('t', Amt(total, 2, y)) if allfull or rng.random() < 0.5 else ('u', Amt(F(rng.randrange(100, 9999), 100), 2, y))
    ctot = cost[1].value if cost[0] == 't' else cost[1].value * units
    first = Post(acct_of(rng, 'R'), 'R', Amt(F(rng.randrange(1, 500)), 0, z))
    posts = [first,
             Post('Assets:Broker:X', 'R', Amt(units, 0, x), cost),
             Post('Assets:Bank', 'R', Amt(-(ctot + rng.randrange(1, 90)), 2, y))]
    if rng.random() < 0.4:
        rng.shuffle(posts)
    return Xact(posts)
