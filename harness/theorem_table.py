#!/usr/bin/env python3
"""rewrites the region between <!-- theorems:begin --> and <!-- theorems:end --> of DESIGN.md: per property the number of
theorems in Properties_Cxx.v (each closed by `exact`/a short script with Print Assumptions beneath), the Gen tables the
file imports, and the declared level"""
import os, re, json, importlib, sys
ROOT = os.path.dirname(os.path.dirname(os.path.abspath(__file__)))
sys.path.insert(0, os.path.join(ROOT, 'harness'))
rows = ['| property | theorems | refuted / witness statements | regenerated tables imported (coq/Gen) | level |', '|---|---|---|---|---|']
tot = 0
for n in range(1, 21):
    pid = 'C%02d' % n
    src = open(os.path.join(ROOT, 'coq', 'Properties', 'Properties_%s.v' % pid)).read()
    ths = re.findall(r'^\s*(?:Theorem|Lemma|Corollary)\s+(\w+)', src, re.M)
    ref = [t for t in ths if 'refuted' in t]
    gens = sorted(set(re.findall(r'Gen\.(\w+)', src)))
    # tables reached through the proofs/models the file imports
    deps = set(gens)
    for mod in re.findall(r'(?:Model|Proofs)\.(\w+)', src):
        for sub in ('Model', 'Proofs'):
            f = os.path.join(ROOT, 'coq', sub, mod + '.v')
            if os.path.exists(f):
                deps |= set(re.findall(r'Gen\.(\w+)', open(f).read()))
    meta = importlib.import_module('props.c%02d' % n).META
    rows.append('| %s | %d | %s | %s | %s |' % (pid, len(ths), ', '.join('`%s`' % r for r in ref) or '-', ', '.join(sorted(deps)) or '-', meta.get('level', '')))
    tot += len(ths)
rows.append('| all | %d | | | |' % tot)
p = os.path.join(ROOT, 'DESIGN.md')
s = open(p).read()
b, e = '<!-- theorems:begin -->', '<!-- theorems:end -->'
if b in s:
    s = s[:s.index(b) + len(b)] + '\n' + '\n'.join(rows) + '\n' + s[s.index(e):]
    open(p, 'w').write(s)
print('%d theorems' % tot)
